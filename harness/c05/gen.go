package c05

import (
	"fmt"
	"regexp"

	"verif/harness/core"
)

// Type-directed program generator. Every name of the program has one static
// type for the whole program (in every scope), so that a read of a defined
// name can be used safely wherever dynamic lookup finds it. The static scope
// chain tracks what is definitely assigned; everything the static discipline
// cannot guarantee (indices after del, aliases of lists handed to add/del,
// block scope re-use, ...) is caught by the reference model, which then drops
// the case as "not determined by the statement".

const (
	kScalar = iota // any scalar incl. null; only used in kind-agnostic positions
	kNum
	kList
	kMap
	kFunc
	kTmpl
)

// Ty is a static type.
type Ty struct {
	K    int
	Elem *Ty // kList: element type
	N    int // kList: literal length
	Keys []mkey
	Vals []*Ty
	Sig  *Sig  // kFunc
	Tm   *Tmpl // kTmpl, and kMap types that describe instances of a template
}

// Sig is a function signature; parameter types come from the program typing.
type Sig struct {
	Params []string
	Defs   []*Lit
	Ret    *Ty
	Rec    bool // first parameter is the recursion counter n
	Level  int  // methods: may call this.<method> of lower level only
}

// Tmpl is the static description of an object template.
type Tmpl struct {
	Name       string
	Supers     []*Tmpl
	Own        []string // own property / method names (without super, init)
	HasInit    bool
	InitSig    *Sig
	InitFields []string
	Self       *Ty // type of the template variable (own non-function properties)
	Inst       *Ty // type of `new(T, ...)`
	This       *Ty // type of `this` inside the template's methods
}

type sscope struct {
	def    map[string]bool
	parent *sscope
	fn     bool
	loop   bool
	sig    *Sig
	thisTy *Ty
	self   string // name under which a recursive function can call itself
}

func (s *sscope) visible(n string) bool {
	for x := s; x != nil; x = x.parent {
		if x.def[n] {
			return true
		}
	}
	return false
}

func (s *sscope) inLoop() bool {
	for x := s; x != nil; x = x.parent {
		if x.loop {
			return true
		}
	}
	return false
}

func (s *sscope) fnScope() *sscope {
	for x := s; x != nil; x = x.parent {
		if x.fn {
			return x
		}
	}
	return nil
}

func (s *sscope) names() []string {
	seen := map[string]bool{}
	var res []string
	for x := s; x != nil; x = x.parent {
		for n := range x.def {
			if !seen[n] {
				seen[n] = true
				res = append(res, n)
			}
		}
	}
	sortStrings(res)
	return res
}

func sortStrings(a []string) {
	for i := 1; i < len(a); i++ {
		for j := i; j > 0 && a[j] < a[j-1]; j-- {
			a[j], a[j-1] = a[j-1], a[j]
		}
	}
}

type gen struct {
	r         *core.Rand
	id        int
	gamma     map[string]*Ty
	scal      []string
	conts     []string
	funcs     []string
	objs      []string
	tmpls     []*Tmpl
	phi       map[string]*Ty
	loopN     int
	budget    int
	excl      string
	defining  []string
	fnDepth   int
	noReturn  int
	reachMemo map[reachKey][]reach
	used      []string // extra names (loop variables, counters) for the global dump
}

var tyScalar = &Ty{K: kScalar}
var tyNum = &Ty{K: kNum}

var identRe = regexp.MustCompile(`^[a-zA-Z][a-zA-Z0-9]*$`)

var dotKeys = []string{"k", "m", "x1", "w", "val"}
var brKeys = []string{"u v", "k-1", "%", "A b"}
var intKeys = []float64{0, 1, 2, 7, 12, -3}
var extraStrKeys = []string{"n1", "n 2"}
var extraIntKeys = []float64{5, 9}

func (g *gen) nid() int { g.id++; return g.id }

func (g *gen) chance(num, den int) bool { return g.r.Chance(num, den) }

// ---------------------------------------------------------------------------
// types

func (g *gen) genTy(depth int) *Ty {
	if depth <= 0 {
		if g.chance(1, 3) {
			return tyNum
		}
		return tyScalar
	}
	if g.chance(2, 5) {
		el := g.genTy(depth - 1)
		if depth > 1 && (el.K == kScalar || el.K == kNum) && g.chance(2, 3) {
			el = g.genTy(depth - 1)
		}
		return &Ty{K: kList, Elem: el, N: g.r.Range(2, 3)}
	}
	t := &Ty{K: kMap}
	n := g.r.Range(2, 4)
	usedKeys := map[mkey]bool{}
	nested := false
	for i := 0; i < n; i++ {
		var k mkey
		switch g.r.Intn(5) {
		case 0, 1:
			k = mkey{s: g.r.Pick(dotKeys)}
		case 2:
			k = mkey{s: g.r.Pick(brKeys)}
		default:
			k = mkey{num: true, n: intKeys[g.r.Intn(len(intKeys))]}
		}
		if usedKeys[k] {
			continue
		}
		usedKeys[k] = true
		vt := g.genTy(g.r.Intn(depth))
		if depth > 1 && !nested && i == n-1 {
			vt = g.genTy(depth - 1)
		}
		if vt.K == kList || vt.K == kMap {
			nested = true
		}
		t.Keys = append(t.Keys, k)
		t.Vals = append(t.Vals, vt)
	}
	return t
}

func isCont(t *Ty) bool { return t != nil && (t.K == kList || t.K == kMap || t.K == kTmpl) }

type reach struct {
	steps []pstep
	ty    *Ty
}

type pstep struct {
	list bool
	idx  int
	key  mkey
}

type reachKey struct {
	t     *Ty
	depth int
}

// reachOf is reachable() memoized per type (types are immutable once the
// program typing is fixed).
func (g *gen) reachOf(t *Ty, depth int) []reach {
	if g.reachMemo == nil {
		g.reachMemo = map[reachKey][]reach{}
	}
	k := reachKey{t, depth}
	if r, ok := g.reachMemo[k]; ok {
		return r
	}
	var rs []reach
	reachable(t, nil, depth, &rs)
	g.reachMemo[k] = rs
	return rs
}

// reachable lists every position inside a value of type t (depth <= 3).
func reachable(t *Ty, prefix []pstep, depth int, out *[]reach) {
	if depth == 0 || !isCont(t) {
		return
	}
	add := func(st pstep, vt *Ty) {
		steps := append(append([]pstep{}, prefix...), st)
		*out = append(*out, reach{steps, vt})
		reachable(vt, steps, depth-1, out)
	}
	if t.K == kList {
		for i := 0; i < t.N; i++ {
			add(pstep{list: true, idx: i}, t.Elem)
		}
		return
	}
	for i, k := range t.Keys {
		add(pstep{key: k}, t.Vals[i])
	}
}

func numLit(f float64) *Lit { return &Lit{V: f} }
func strLit(s string) *Lit  { return &Lit{V: s} }

func (g *gen) mkPath(root string, steps []pstep) *Path {
	p := &Path{Root: root}
	for _, st := range steps {
		switch {
		case st.list:
			p.Steps = append(p.Steps, Step{Idx: numLit(float64(st.idx))})
		case st.key.num:
			p.Steps = append(p.Steps, Step{Idx: numLit(st.key.n)})
		default:
			if identRe.MatchString(st.key.s) && g.chance(1, 2) {
				p.Steps = append(p.Steps, Step{Dot: true, Idx: strLit(st.key.s)})
			} else {
				p.Steps = append(p.Steps, Step{Idx: strLit(st.key.s)})
			}
		}
	}
	return p
}

// ---------------------------------------------------------------------------
// expressions

type rooted struct {
	root string
	ty   *Ty
}

func (g *gen) thisTy(sc *sscope) *Ty {
	for x := sc; x != nil; x = x.parent {
		if x.fn && x.thisTy != nil {
			return x.thisTy
		}
	}
	return nil
}

func (g *gen) rootsAll(sc *sscope) []rooted {
	var res []rooted
	for _, n := range sc.names() {
		if n == g.excl {
			continue
		}
		if t := g.gamma[n]; isCont(t) {
			res = append(res, rooted{n, t})
		}
	}
	if tt := g.thisTy(sc); tt != nil {
		res = append(res, rooted{"this", tt})
	}
	return res
}

type cand struct {
	root  string
	steps []pstep
	ty    *Ty
}

// positions lists variables and paths visible in sc whose type satisfies want.
func (g *gen) positions(sc *sscope, want func(*Ty) bool, vars, paths bool) []cand {
	var res []cand
	if vars {
		for _, n := range sc.names() {
			if n == g.excl {
				continue
			}
			if t := g.gamma[n]; t != nil && want(t) {
				res = append(res, cand{root: n, ty: t})
			}
		}
	}
	if paths {
		for _, rt := range g.rootsAll(sc) {
			rs := g.reachOf(rt.ty, 3)
			for _, rc := range rs {
				if want(rc.ty) {
					res = append(res, cand{rt.root, rc.steps, rc.ty})
				}
			}
		}
	}
	return res
}

func (g *gen) candExpr(c cand) Expr {
	if len(c.steps) == 0 {
		return &Var{c.root}
	}
	return g.mkPath(c.root, c.steps)
}

func (g *gen) scalarLit() *Lit {
	switch g.r.Intn(10) {
	case 0, 1, 2, 3:
		return numLit(float64(g.r.Intn(10)))
	case 4:
		return numLit(2.5)
	case 5, 6:
		return strLit(fmt.Sprintf("s%d", g.r.Intn(4)))
	case 7:
		return strLit("")
	case 8:
		return &Lit{V: g.r.Bool()}
	}
	return &Lit{V: nil}
}

func isScalarTy(t *Ty) bool { return t.K == kScalar || t.K == kNum }

func (g *gen) expr(ty *Ty, sc *sscope) Expr {
	switch ty.K {
	case kScalar:
		switch g.r.Intn(9) {
		case 0, 1, 2:
			if cs := g.positions(sc, isScalarTy, true, false); len(cs) > 0 {
				return g.candExpr(cs[g.r.Intn(len(cs))])
			}
		case 3, 4, 5:
			if cs := g.positions(sc, isScalarTy, false, true); len(cs) > 0 {
				return g.candExpr(cs[g.r.Intn(len(cs))])
			}
		case 6:
			if cs := g.positions(sc, func(t *Ty) bool { return t.K == kList || t.K == kMap }, true, true); len(cs) > 0 {
				return &Builtin{"len", []Expr{g.candExpr(cs[g.r.Intn(len(cs))])}}
			}
		case 7:
			return g.expr(tyNum, sc)
		}
		return g.scalarLit()
	case kNum:
		isNum := func(t *Ty) bool { return t.K == kNum }
		switch g.r.Intn(8) {
		case 0, 1:
			if cs := g.positions(sc, isNum, true, false); len(cs) > 0 {
				return g.candExpr(cs[g.r.Intn(len(cs))])
			}
		case 2, 3:
			if cs := g.positions(sc, isNum, true, true); len(cs) > 0 {
				op := g.r.Pick([]string{"+", "+", "-", "*"})
				return &Bin{op, g.candExpr(cs[g.r.Intn(len(cs))]), numLit(float64(g.r.Range(1, 3)))}
			}
		case 4:
			if cs := g.positions(sc, isNum, false, true); len(cs) > 0 {
				return g.candExpr(cs[g.r.Intn(len(cs))])
			}
		case 5:
			if cs := g.positions(sc, func(t *Ty) bool { return t.K == kList || t.K == kMap }, true, true); len(cs) > 0 {
				return &Builtin{"len", []Expr{g.candExpr(cs[g.r.Intn(len(cs))])}}
			}
		}
		return numLit(float64(g.r.Intn(10)))
	case kList, kMap:
		same := func(t *Ty) bool { return t == ty }
		if ty.Tm != nil {
			// instance of a template
			if cs := g.positions(sc, same, true, true); len(cs) > 0 && g.chance(1, 3) {
				return g.candExpr(cs[g.r.Intn(len(cs))])
			}
			return g.newExpr(ty.Tm, sc)
		}
		if cs := g.positions(sc, same, true, true); len(cs) > 0 && g.chance(1, 2) {
			return g.candExpr(cs[g.r.Intn(len(cs))])
		}
		if ty.K == kList && g.chance(1, 8) {
			if cs := g.positions(sc, same, true, true); len(cs) > 0 {
				return &Builtin{"concat", []Expr{g.candExpr(cs[g.r.Intn(len(cs))]), g.expr(ty, sc)}}
			}
		}
		return g.contLit(ty, sc)
	case kFunc:
		same := func(t *Ty) bool { return t.K == kFunc && t.Sig == ty.Sig }
		if cs := g.positions(sc, same, true, true); len(cs) > 0 && (g.chance(1, 2) || g.fnDepth >= 3 || g.budget <= 0) {
			c := cs[g.r.Intn(len(cs))]
			if !g.isDefining(c.root) || len(c.steps) > 0 {
				return g.candExpr(c)
			}
		}
		return g.funcLit(ty.Sig, sc, "", nil)
	case kTmpl:
		return &Var{ty.Tm.Name}
	}
	panic("expr: kind")
}

func (g *gen) contLit(ty *Ty, sc *sscope) Expr {
	if ty.K == kList {
		l := &ListLit{}
		for i := 0; i < ty.N; i++ {
			l.Elems = append(l.Elems, g.expr(ty.Elem, sc))
		}
		return l
	}
	m := &MapLit{}
	for i, k := range ty.Keys {
		if k.num {
			m.Keys = append(m.Keys, numLit(k.n))
		} else {
			m.Keys = append(m.Keys, strLit(k.s))
		}
		m.Vals = append(m.Vals, g.expr(ty.Vals[i], sc))
	}
	return m
}

func (g *gen) isDefining(n string) bool {
	for _, d := range g.defining {
		if d == n {
			return true
		}
	}
	return false
}

// args builds an argument list for sig with an arity of -1 / 0 / +1 relative to
// the parameter list.
func (g *gen) args(sig *Sig, sc *sscope, selfCall bool) []Expr {
	np := len(sig.Params)
	count := np
	extra := false
	switch g.r.Intn(8) {
	case 0:
		if np > 0 {
			last := sig.Params[np-1]
			if sig.Defs[np-1] != nil || g.gamma[last].K == kScalar {
				if !(sig.Rec && np == 1) {
					count = np - 1
				}
			}
		}
	case 1:
		extra = true
	}
	var res []Expr
	for i := 0; i < count; i++ {
		if sig.Rec && i == 0 {
			if selfCall {
				res = append(res, &Bin{"-", &Var{"n"}, numLit(1)})
			} else {
				res = append(res, numLit(float64(g.r.Intn(4))))
			}
			continue
		}
		res = append(res, g.expr(g.gamma[sig.Params[i]], sc))
	}
	if extra {
		res = append(res, g.scalarLit())
	}
	return res
}

func (g *gen) newExpr(t *Tmpl, sc *sscope) Expr {
	a := []Expr{&Var{t.Name}}
	if is := t.runInit(); is != nil {
		a = append(a, g.args(is, sc, false)...)
	} else if g.chance(1, 6) {
		a = append(a, g.scalarLit())
	}
	return &Builtin{"new", a}
}

// funcLit generates a function literal of the given signature.
func (g *gen) funcLit(sig *Sig, sc *sscope, name string, thisTy *Ty) *FuncLit {
	f := &FuncLit{ID: g.nid(), Name: name}
	fs := &sscope{def: map[string]bool{}, parent: sc, fn: true, sig: sig, thisTy: thisTy}
	for i, p := range sig.Params {
		pa := Param{Name: p, Def: sig.Defs[i]}
		if pa.Def != nil && g.gamma[p] != nil && g.gamma[p].K == kNum && g.chance(1, 3) {
			// a default that is an expression over a numeric name of the
			// declaration scope (not one of the parameters: whether a default sees
			// earlier parameters is not in the statement)
			var cs []string
			for _, c := range g.positions(sc, func(t *Ty) bool { return t.K == kNum }, true, false) {
				if v, ok := g.candExpr(c).(*Var); ok {
					own := false
					for _, q := range sig.Params {
						own = own || q == v.Name
					}
					if !own {
						cs = append(cs, v.Name)
					}
				}
			}
			if len(cs) > 0 {
				n := cs[g.r.Intn(len(cs))]
				if g.chance(1, 2) {
					pa.DefE = &Var{n}
				} else {
					pa.DefE = &Bin{"+", &Var{n}, numLit(float64(g.r.Range(1, 3)))}
				}
			}
		}
		f.Params = append(f.Params, pa)
		fs.def[p] = true
	}
	saveExcl := g.excl
	g.excl = ""
	g.fnDepth++
	g.budget--
	tick := &Rec{Tag: fmt.Sprintf("F%d", f.ID)}
	for _, p := range sig.Params {
		tick.Args = append(tick.Args, &Var{p})
	}
	f.Body = append(f.Body, tick)
	n := 0
	if g.budget > 0 && g.fnDepth <= 3 {
		n = g.r.Range(0, 3)
	}
	saveNR := g.noReturn
	g.noReturn = 0
	if sig.Ret != nil && sig.Ret.K == kFunc && g.chance(3, 4) {
		// a local for the returned closure to capture
		f.Body = append(f.Body, g.assignLocal(fs)...)
	}
	if sig.Rec && name != "" {
		// if n > 0 { <inner>; <self call> }
		bs := &sscope{def: map[string]bool{}, parent: fs}
		inner := g.stmts(bs, n, 2)
		call := &Call{&Var{name}, g.args(sig, bs, true)}
		if sig.Ret != nil && isScalarTy(sig.Ret) && g.chance(1, 2) {
			inner = append(inner, &Rec{Tag: fmt.Sprintf("R%d", f.ID), Args: []Expr{call}})
		} else {
			inner = append(inner, &ExprStmt{call})
		}
		f.Body = append(f.Body, &If{ID: g.nid(), Cond: &Bin{">", &Var{"n"}, numLit(0)}, Then: inner})
	} else {
		f.Body = append(f.Body, g.stmts(fs, n, 1)...)
	}
	g.noReturn = saveNR
	if sig.Ret != nil {
		f.Body = append(f.Body, &Return{g.expr(sig.Ret, fs)})
	}
	g.fnDepth--
	g.excl = saveExcl
	return f
}

// ---------------------------------------------------------------------------
// statements

func (g *gen) stmts(sc *sscope, n, depth int) []Stmt {
	var res []Stmt
	for i := 0; i < n && g.budget > 0; i++ {
		for try := 0; try < 4; try++ {
			if s := g.stmt(sc, depth); s != nil {
				res = append(res, s...)
				break
			}
		}
	}
	return res
}

func (g *gen) pickName() string {
	switch g.r.Intn(10) {
	case 0, 1, 2, 3:
		return g.r.Pick(g.scal)
	case 4, 5, 6:
		return g.r.Pick(g.conts)
	case 7:
		return g.r.Pick(g.funcs)
	default:
		if len(g.objs) > 0 {
			return g.r.Pick(g.objs)
		}
		return g.r.Pick(g.scal)
	}
}

func (g *gen) stmt(sc *sscope, depth int) []Stmt {
	g.budget--
	inFn := sc.fnScope() != nil
	switch g.r.Intn(22) {
	case 0, 1, 2, 3:
		return g.assignVar(sc, depth, g.pickName())
	case 4, 5, 6:
		return g.pathWrite(sc)
	case 7, 8, 9:
		return g.recRead(sc)
	case 10, 11, 12, 13:
		return g.callStmt(sc)
	case 14, 15, 16:
		if depth < 3 {
			return g.blockStmt(sc, depth)
		}
	case 17, 18:
		return g.listOp(sc)
	case 19:
		if inFn && depth < 3 && g.noReturn == 0 {
			if fs := sc.fnScope(); fs.sig != nil && fs.sig.Ret != nil {
				bs := &sscope{def: map[string]bool{}, parent: sc}
				return []Stmt{&If{ID: g.nid(), Cond: g.cond(sc), Then: []Stmt{&Return{g.expr(fs.sig.Ret, bs)}}}}
			}
		}
	case 20:
		if len(g.scal) >= 2 {
			a, b := g.scal[0], g.scal[1]
			let := (depth > 0 || inFn) && g.chance(1, 3)
			var e1, e2 Expr
			if let {
				// neither name may be read on the right side of its own let
				e1, e2 = g.litOf(g.gamma[a]), g.litOf(g.gamma[b])
			} else {
				e1, e2 = g.expr(g.gamma[a], sc), g.expr(g.gamma[b], sc)
			}
			if let || !sc.visible(a) {
				sc.def[a] = true
			}
			if let || !sc.visible(b) {
				sc.def[b] = true
			}
			return []Stmt{&MultiAssign{Let: let, Names: []string{a, b}, Rhs: &ListLit{[]Expr{e1, e2}}}}
		}
	case 21:
		return g.indexedLoop(sc, depth)
	}
	return nil
}

// assignLocal declares a scalar or container name with let.
func (g *gen) assignLocal(sc *sscope) []Stmt {
	n := g.r.Pick(g.scal)
	if g.chance(1, 3) {
		n = g.r.Pick(g.conts)
	}
	g.excl = n
	rhs := g.expr(g.gamma[n], sc)
	g.excl = ""
	sc.def[n] = true
	return []Stmt{&Assign{Let: true, Target: &Var{n}, Rhs: rhs}}
}

func (g *gen) litOf(t *Ty) Expr {
	if t.K == kNum {
		return numLit(float64(g.r.Intn(10)))
	}
	return g.scalarLit()
}

func (g *gen) assignVar(sc *sscope, depth int, name string) []Stmt {
	ty := g.gamma[name]
	inFn := sc.fnScope() != nil
	let := false
	if depth > 0 || inFn {
		let = g.chance(7, 20)
	} else {
		let = g.chance(1, 10)
	}
	if ty.K == kFunc {
		if g.fnDepth >= 3 || g.budget <= 2 || g.isDefining(name) {
			return nil
		}
		if sc.visible(name) && !g.chance(1, 4) {
			return nil // redefinition of functions is kept rare
		}
		g.defining = append(g.defining, name)
		defer func() { g.defining = g.defining[:len(g.defining)-1] }()
		declOK := !sc.visible(name) || sc.def[name]
		if declOK && g.chance(1, 2) {
			f := g.funcLit(ty.Sig, sc, name, nil)
			sc.def[name] = true
			return []Stmt{&FuncDecl{f}}
		}
		// a recursive function assigned to a variable calls itself through that variable
		var f *FuncLit
		if ty.Sig.Rec {
			f = g.funcLitRecVia(ty.Sig, sc, name)
		} else {
			f = g.funcLit(ty.Sig, sc, "", nil)
		}
		if let || !sc.visible(name) {
			sc.def[name] = true
		}
		return []Stmt{&Assign{Let: let, Target: &Var{name}, Rhs: f}}
	}
	if let {
		g.excl = name
	}
	rhs := g.expr(ty, sc)
	g.excl = ""
	if let || !sc.visible(name) {
		sc.def[name] = true
	}
	return []Stmt{&Assign{Let: let, Target: &Var{name}, Rhs: rhs}}
}

// funcLitRecVia: an anonymous recursive function that calls itself through the
// variable it is being assigned to.
func (g *gen) funcLitRecVia(sig *Sig, sc *sscope, name string) *FuncLit {
	f := g.funcLit(sig, sc, name, nil)
	f.Name = ""
	return f
}

func numKeyInside(steps []pstep) bool {
	for _, st := range steps {
		if !st.list && st.key.num {
			return true
		}
	}
	return false
}

func (g *gen) pathWrite(sc *sscope) []Stmt {
	rts := g.rootsAll(sc)
	if len(rts) == 0 {
		return nil
	}
	rt := rts[g.r.Intn(len(rts))]
	rs := g.reachOf(rt.ty, 3)
	var steps []pstep
	var vt *Ty
	if g.chance(1, 4) {
		// a key the literal did not have, in the root or in a nested map
		conts := []reach{{nil, rt.ty}}
		for _, rc := range rs {
			if (rc.ty.K == kMap) && !numKeyInside(rc.steps) {
				conts = append(conts, rc)
			}
		}
		c := conts[g.r.Intn(len(conts))]
		if c.ty.K == kList {
			return nil
		}
		var k mkey
		if g.chance(1, 2) {
			k = mkey{s: g.r.Pick(extraStrKeys)}
		} else {
			k = mkey{num: true, n: extraIntKeys[g.r.Intn(len(extraIntKeys))]}
		}
		steps = append(append([]pstep{}, c.steps...), pstep{key: k})
		vt = tyScalar
	} else {
		// a number key of a map may only be the last step of an assignment path;
		// methods of objects and templates stay what they are
		var ok []reach
		for _, rc := range rs {
			if numKeyInside(rc.steps[:len(rc.steps)-1]) || (rc.ty.K == kFunc && rt.ty.Tm != nil) {
				continue
			}
			ok = append(ok, rc)
		}
		if len(ok) == 0 {
			return nil
		}
		rc := ok[g.r.Intn(len(ok))]
		steps, vt = rc.steps, rc.ty
	}
	p := g.mkPath(rt.root, steps)
	var rhs Expr
	if vt.K == kFunc {
		if g.fnDepth >= 3 || g.budget <= 2 {
			return nil
		}
		rhs = g.funcLit(vt.Sig, sc, "", nil)
	} else {
		rhs = g.expr(vt, sc)
	}
	res := []Stmt{&Assign{Target: p, Rhs: rhs}}
	if g.chance(3, 5) {
		// read back, possibly through the other access form
		res = append(res, &Rec{Tag: "rw", Args: []Expr{g.mkPath(rt.root, steps)}})
	}
	return res
}

func (g *gen) recRead(sc *sscope) []Stmt {
	r := &Rec{Tag: "rd"}
	n := g.r.Range(1, 3)
	all := g.positions(sc, func(t *Ty) bool { return true }, true, true)
	for i := 0; i < n; i++ {
		if g.chance(1, 7) && !sc.inLoop() {
			// a name that is not (yet) defined in any enclosing scope
			pool := append(append(append([]string{"zz"}, g.scal...), g.conts...), g.funcs...)
			nm := g.r.Pick(pool)
			if !sc.visible(nm) {
				r.Args = append(r.Args, &Var{nm})
				continue
			}
		}
		if len(all) > 0 {
			r.Args = append(r.Args, g.candExpr(all[g.r.Intn(len(all))]))
		} else {
			r.Args = append(r.Args, g.scalarLit())
		}
	}
	return []Stmt{r}
}

func (g *gen) callStmt(sc *sscope) []Stmt {
	level := 0
	if fs := sc.fnScope(); fs != nil && fs.sig != nil {
		level = fs.sig.Level
	}
	cs := g.positions(sc, func(t *Ty) bool { return t.K == kFunc }, true, true)
	var ok []cand
	for _, c := range cs {
		if len(c.steps) == 0 && g.isDefining(c.root) {
			continue
		}
		if c.root == "this" && c.ty.Sig.Level >= level {
			continue
		}
		ok = append(ok, c)
	}
	if len(ok) == 0 {
		return nil
	}
	c := ok[g.r.Intn(len(ok))]
	sig := c.ty.Sig
	call := &Call{g.candExpr(c), g.args(sig, sc, false)}
	if sig.Ret == nil {
		return []Stmt{&ExprStmt{call}}
	}
	switch g.r.Intn(4) {
	case 0:
		return []Stmt{&ExprStmt{call}}
	case 1, 2:
		// store the result in a variable of the result type
		var names []string
		for n, t := range g.gamma {
			if n == "n" || n == "this" || t.K == kTmpl {
				continue
			}
			if t == sig.Ret || (isScalarTy(sig.Ret) && t.K == kScalar) || (t.K == kFunc && sig.Ret.K == kFunc && t.Sig == sig.Ret.Sig) {
				if g.isPool(n) {
					names = append(names, n)
				}
			}
		}
		sortStrings(names)
		if len(names) > 0 {
			n := names[g.r.Intn(len(names))]
			let := sc.fnScope() != nil && g.chance(1, 3)
			if let || !sc.visible(n) {
				sc.def[n] = true
			}
			return []Stmt{&Assign{Let: let, Target: &Var{n}, Rhs: call}}
		}
	}
	return []Stmt{&Rec{Tag: "cr", Args: []Expr{call}}}
}

func (g *gen) isPool(n string) bool {
	for _, l := range [][]string{g.scal, g.conts, g.funcs, g.objs} {
		for _, x := range l {
			if x == n {
				return true
			}
		}
	}
	return false
}

func (g *gen) cond(sc *sscope) Expr {
	switch g.r.Intn(10) {
	case 0, 1, 2, 3:
		return &Lit{V: true}
	case 4:
		return &Lit{V: false}
	}
	op := g.r.Pick([]string{"<", "<=", ">", ">=", "==", "!="})
	return &Bin{op, g.expr(tyNum, sc), numLit(float64(g.r.Intn(6)))}
}

func (g *gen) blockStmt(sc *sscope, depth int) []Stmt {
	n := g.r.Range(1, 3)
	switch g.r.Intn(8) {
	case 0, 1, 2:
		s := &If{ID: g.nid(), Cond: g.cond(sc)}
		s.Then = g.stmts(&sscope{def: map[string]bool{}, parent: sc}, n, depth+1)
		if g.chance(2, 5) {
			s.HasElse = true
			s.Else = g.stmts(&sscope{def: map[string]bool{}, parent: sc}, g.r.Range(1, 2), depth+1)
		}
		return []Stmt{s}
	case 3:
		g.loopN++
		v := fmt.Sprintf("i%d", g.loopN)
		g.gamma[v] = tyNum
		g.used = append(g.used, v)
		s := &ForIn{ID: g.nid(), Vars: []string{v}}
		a := g.r.Intn(3)
		switch g.r.Intn(4) {
		case 0:
			s.Range = []Expr{numLit(float64(g.r.Range(1, 2)))}
		case 1:
			s.Range = []Expr{numLit(float64(a + 2)), numLit(float64(a)), numLit(-1)}
		default:
			s.Range = []Expr{numLit(float64(a)), numLit(float64(a + g.r.Range(1, 2)))}
		}
		bs := &sscope{def: map[string]bool{v: true}, parent: sc, loop: true}
		s.Body = append([]Stmt{&Rec{Tag: fmt.Sprintf("L%d", s.ID), Args: []Expr{&Var{v}}}}, g.stmts(bs, n, depth+1)...)
		return []Stmt{s}
	case 4:
		cs := g.positions(sc, func(t *Ty) bool { return t.K == kList }, true, true)
		if len(cs) == 0 {
			return nil
		}
		c := cs[g.r.Intn(len(cs))]
		g.loopN++
		v := fmt.Sprintf("i%d", g.loopN)
		g.gamma[v] = c.ty.Elem
		g.used = append(g.used, v)
		s := &ForIn{ID: g.nid(), Vars: []string{v}, Iter: g.candExpr(c)}
		bs := &sscope{def: map[string]bool{v: true}, parent: sc, loop: true}
		s.Body = append([]Stmt{&Rec{Tag: fmt.Sprintf("L%d", s.ID), Args: []Expr{&Var{v}}}}, g.stmts(bs, n, depth+1)...)
		return []Stmt{s}
	case 5:
		g.loopN++
		k := fmt.Sprintf("k%d", g.loopN)
		g.gamma[k] = tyNum
		g.used = append(g.used, k)
		init := &Assign{Let: (depth > 0 || sc.fnScope() != nil) && g.chance(1, 2), Target: &Var{k}, Rhs: numLit(0)}
		sc.def[k] = true
		s := &ForGuard{ID: g.nid(), Cond: &Bin{"<", &Var{k}, numLit(float64(g.r.Range(1, 2)))}}
		bs := &sscope{def: map[string]bool{}, parent: sc, loop: true}
		s.Body = []Stmt{&Rec{Tag: fmt.Sprintf("L%d", s.ID), Args: []Expr{&Var{k}}},
			&Assign{Target: &Var{k}, Rhs: &Bin{"+", &Var{k}, numLit(1)}}}
		s.Body = append(s.Body, g.stmts(bs, n, depth+1)...)
		return []Stmt{init, s}
	case 6:
		s := &Try{ID: g.nid(), FinID: g.nid()}
		s.Body = g.stmts(&sscope{def: map[string]bool{}, parent: sc}, n, depth+1)
		s.Except = g.chance(1, 2)
		if g.chance(1, 2) {
			s.HasOth, s.OthID = true, g.nid()
			s.Otherwise = g.stmts(&sscope{def: map[string]bool{}, parent: sc}, g.r.Range(1, 2), depth+1)
		}
		s.Finally = g.stmtsNoReturn(&sscope{def: map[string]bool{}, parent: sc}, g.r.Range(1, 2), depth+1)
		return []Stmt{s}
	default:
		s := &Mutex{ID: g.nid(), Name: g.r.Pick([]string{"mx1", "mx2"})}
		s.Body = g.stmts(&sscope{def: map[string]bool{}, parent: sc}, n, depth+1)
		return []Stmt{s}
	}
}

// stmtsNoReturn generates statements for a finally block (no return inside).
func (g *gen) stmtsNoReturn(sc *sscope, n, depth int) []Stmt {
	g.noReturn++
	defer func() { g.noReturn-- }()
	return g.stmts(sc, n, depth)
}

func (g *gen) listOp(sc *sscope) []Stmt {
	// only variables: the result goes back into the variable it came from
	var lists, maps []string
	for _, n := range sc.names() {
		if t := g.gamma[n]; t != nil && g.isPool(n) {
			if t.K == kList {
				lists = append(lists, n)
			} else if t.K == kMap && t.Tm == nil {
				maps = append(maps, n)
			}
		}
	}
	if len(lists) > 0 && (len(maps) == 0 || g.chance(3, 4)) {
		n := g.r.Pick(lists)
		t := g.gamma[n]
		switch g.r.Intn(7) {
		case 6:
			// add / del on a fresh literal: no alias of the argument is left behind
			if g.chance(1, 2) {
				return []Stmt{&Assign{Target: &Var{n}, Rhs: &Builtin{"add", []Expr{g.contLit(t, sc), g.expr(t.Elem, sc), numLit(float64(g.r.Intn(t.N + 1)))}}},
					&Rec{Tag: "ad", Args: []Expr{&Var{n}}}}
			}
			return []Stmt{&Assign{Target: &Var{n}, Rhs: &Builtin{"del", []Expr{&Builtin{"concat", []Expr{&Var{n}, g.contLit(t, sc)}}, numLit(float64(g.r.Intn(t.N)))}}},
				&Rec{Tag: "dl", Args: []Expr{&Var{n}}}}
		case 0, 1:
			return []Stmt{&Assign{Target: &Var{n}, Rhs: &Builtin{"add", []Expr{&Var{n}, g.expr(t.Elem, sc)}}},
				&Rec{Tag: "ad", Args: []Expr{&Builtin{"len", []Expr{&Var{n}}}}}}
		case 2:
			return []Stmt{&Assign{Target: &Var{n}, Rhs: &Builtin{"add", []Expr{&Var{n}, g.expr(t.Elem, sc), numLit(float64(g.r.Intn(2)))}}}}
		case 3:
			// remove the element that was appended last keeps the literal's indices valid
			return []Stmt{&Assign{Target: &Var{n}, Rhs: &Builtin{"add", []Expr{&Var{n}, g.expr(t.Elem, sc)}}},
				&Assign{Target: &Var{n}, Rhs: &Builtin{"del", []Expr{&Var{n}, numLit(float64(g.r.Intn(t.N + 1)))}}},
				&Rec{Tag: "dl", Args: []Expr{&Var{n}}}}
		case 4:
			return []Stmt{&Assign{Target: &Var{n}, Rhs: &Builtin{"concat", []Expr{&Var{n}, g.expr(t, sc)}}},
				&Rec{Tag: "cc", Args: []Expr{&Builtin{"len", []Expr{&Var{n}}}}}}
		default:
			return []Stmt{&Rec{Tag: "ln", Args: []Expr{&Builtin{"len", []Expr{&Var{n}}}, &Builtin{"add", []Expr{g.contLit(t, sc), g.expr(t.Elem, sc)}}}}}
		}
	}
	if len(maps) > 0 {
		n := g.r.Pick(maps)
		t := g.gamma[n]
		var key Expr
		own := -1
		switch g.r.Intn(4) {
		case 0:
			key = strLit(g.r.Pick(extraStrKeys))
		case 1:
			key = numLit(extraIntKeys[g.r.Intn(len(extraIntKeys))])
		default:
			own = g.r.Intn(len(t.Keys))
			k := t.Keys[own]
			if t.Vals[own].K == kFunc {
				own, k = -1, mkey{s: extraStrKeys[0]}
			}
			if k.num {
				key = numLit(k.n)
			} else {
				key = strLit(k.s)
			}
		}
		// half of the time the map handed to del is a fresh literal, so that no
		// alias of it is left behind ("only the returned value should be used")
		var from Expr = &Var{n}
		if g.chance(1, 2) {
			from = g.contLit(t, sc)
		}
		res := []Stmt{&Assign{Target: &Var{n}, Rhs: &Builtin{"del", []Expr{from, key}}},
			&Rec{Tag: "dm", Args: []Expr{&Builtin{"len", []Expr{&Var{n}}}, &Var{n}}}}
		if own >= 0 && t.Vals[own].K != kFunc {
			// put the key back so that later reads of it stay determined
			g.excl = n // the value must not be read from the map that lost the key
			back := g.expr(t.Vals[own], sc)
			g.excl = ""
			res = append(res, &Assign{Target: &Path{Root: n, Steps: []Step{{Idx: key}}}, Rhs: back},
				&Rec{Tag: "rw", Args: []Expr{&Path{Root: n, Steps: []Step{{Idx: key}}}, &Builtin{"len", []Expr{&Var{n}}}}})
		}
		if !sc.visible(n) {
			sc.def[n] = true
		}
		return res
	}
	return nil
}

func (g *gen) indexedLoop(sc *sscope, depth int) []Stmt {
	if depth >= 3 {
		return nil
	}
	var lists []string
	for _, n := range sc.names() {
		if t := g.gamma[n]; t != nil && t.K == kList && isScalarTy(t.Elem) && n != g.excl {
			lists = append(lists, n)
		}
	}
	if len(lists) == 0 {
		return nil
	}
	n := g.r.Pick(lists)
	t := g.gamma[n]
	g.loopN++
	v := fmt.Sprintf("i%d", g.loopN)
	g.gamma[v] = tyNum
	g.used = append(g.used, v)
	s := &ForIn{ID: g.nid(), Vars: []string{v}, Range: []Expr{numLit(0), numLit(float64(t.N - 1))}}
	at := &Path{Root: n, Steps: []Step{{Idx: &Var{v}}}}
	bs := &sscope{def: map[string]bool{v: true}, parent: sc, loop: true}
	s.Body = []Stmt{&Rec{Tag: fmt.Sprintf("L%d", s.ID), Args: []Expr{&Var{v}, at}},
		&Assign{Target: at, Rhs: g.expr(t.Elem, bs)},
		&Rec{Tag: "rw", Args: []Expr{at}}}
	return []Stmt{s}
}

// ---------------------------------------------------------------------------
// templates

// resolve mirrors the reference's rule statically: the definer of each key or
// nil when two super templates disagree.
func (t *Tmpl) resolve() map[string]*Tmpl {
	res := map[string]*Tmpl{}
	for _, s := range t.Supers {
		for k, d := range s.resolve() {
			if e, ok := res[k]; ok && (e == nil || d == nil || e != d) {
				res[k] = nil
			} else if !ok {
				res[k] = d
			}
		}
	}
	for _, k := range t.Own {
		res[k] = t
	}
	if t.HasInit {
		res["init"] = t
	}
	return res
}

// runInit is the signature of the constructor that `new(t)` runs, or nil.
func (t *Tmpl) runInit() *Sig {
	if d := t.resolve()["init"]; d != nil {
		return d.InitSig
	}
	return nil
}

func (g *gen) genTemplates(sc *sscope) []Stmt {
	shape := g.r.Intn(6)
	var ts []*Tmpl
	mk := func(sup ...*Tmpl) *Tmpl {
		t := &Tmpl{Name: fmt.Sprintf("T%d", len(ts)), Supers: sup}
		ts = append(ts, t)
		return t
	}
	switch shape {
	case 0:
		mk()
	case 1:
		a := mk()
		mk(a)
	case 2:
		a := mk()
		b := mk(a)
		mk(b)
	case 3:
		a := mk()
		b := mk()
		mk(a, b)
	default: // diamond
		a := mk()
		b := mk(a)
		c := mk(a)
		mk(b, c)
	}
	g.tmpls = ts
	// member typing, program wide
	g.phi = map[string]*Ty{
		"p": tyScalar, "q": tyNum,
		"r": {K: kList, Elem: tyScalar, N: 2},
		"s": {K: kMap, Keys: []mkey{{s: "k"}, {num: true, n: 1}}, Vals: []*Ty{tyScalar, tyScalar}},
	}
	pa := g.r.Pick(g.scal)
	g.phi["m1"] = &Ty{K: kFunc, Sig: &Sig{Params: []string{pa}, Defs: []*Lit{nil}, Ret: tyScalar, Level: 1}}
	g.phi["m2"] = &Ty{K: kFunc, Sig: &Sig{Params: nil, Defs: nil, Ret: g.phi[g.r.Pick([]string{"p", "r", "q"})], Level: 2}}
	if g.phi["m1"].Sig.Defs[0] == nil && g.chance(1, 2) && g.gamma[pa].K == kNum {
		g.phi["m1"].Sig.Defs[0] = numLit(4)
	}
	if g.gamma[pa].K == kNum && g.phi["m1"].Sig.Defs[0] == nil {
		g.phi["m1"].Sig.Defs[0] = numLit(6)
	}
	g.phi["i0"] = tyScalar
	g.phi["i1"] = tyScalar
	members := []string{"p", "q", "r", "s", "m1", "m2"}
	var out []Stmt
	for _, t := range ts {
		// own members
		for _, m := range members {
			if g.chance(2, 5) {
				t.Own = append(t.Own, m)
			}
		}
		t.HasInit = g.chance(3, 5)
		// override whatever the super templates disagree about
		inh := map[string]*Tmpl{}
		ambInit := false
		for _, s := range t.Supers {
			sres := s.resolve()
			for _, k := range sortedKeys(sres) {
				d := sres[k]
				if e, ok := inh[k]; ok && (e == nil || d == nil || e != d) {
					inh[k] = nil
					if k == "init" {
						ambInit = true
					} else if !contains(t.Own, k) {
						t.Own = append(t.Own, k)
					}
				} else if !ok {
					inh[k] = d
				}
			}
		}
		if ambInit {
			t.HasInit = true
		}
		if t.HasInit {
			np := g.r.Intn(3)
			perm := g.r.Perm(len(g.scal))
			sig := &Sig{Level: 99}
			for i := 0; i < np && i < len(perm); i++ {
				sig.Params = append(sig.Params, g.scal[perm[i]])
				var d *Lit
				if g.gamma[g.scal[perm[i]]].K == kNum {
					d = numLit(float64(g.r.Intn(5)))
				} else if g.chance(1, 3) {
					d = g.scalarLit()
				}
				sig.Defs = append(sig.Defs, d)
			}
			t.InitSig = sig
			t.InitFields = []string{"i0"}
			if g.chance(1, 3) {
				t.InitFields = append(t.InitFields, "i1")
			}
		}
		// types
		res := t.resolve()
		mkView := func(withInitFields bool) *Ty {
			v := &Ty{K: kMap, Tm: t}
			var keys []string
			for k, d := range res {
				if d != nil && k != "init" {
					keys = append(keys, k)
				}
			}
			sortStrings(keys)
			for _, k := range keys {
				v.Keys = append(v.Keys, mkey{s: k})
				v.Vals = append(v.Vals, g.phi[k])
			}
			if withInitFields {
				if d := res["init"]; d != nil {
					for _, f := range d.InitFields {
						v.Keys = append(v.Keys, mkey{s: f})
						v.Vals = append(v.Vals, g.phi[f])
					}
				}
			}
			return v
		}
		t.Inst = mkView(true)
		t.This = mkView(false)
		t.Self = &Ty{K: kTmpl, Tm: t}
		for _, k := range t.Own {
			if g.phi[k].K != kFunc {
				t.Self.Keys = append(t.Self.Keys, mkey{s: k})
				t.Self.Vals = append(t.Self.Vals, g.phi[k])
			}
		}
		g.gamma[t.Name] = t.Self
		// the literal
		m := &MapLit{}
		if len(t.Supers) > 0 {
			l := &ListLit{}
			for _, s := range t.Supers {
				l.Elems = append(l.Elems, &Var{s.Name})
			}
			m.Keys = append(m.Keys, strLit("super"))
			m.Vals = append(m.Vals, l)
		}
		for _, k := range t.Own {
			m.Keys = append(m.Keys, strLit(k))
			if g.phi[k].K == kFunc {
				m.Vals = append(m.Vals, g.funcLit(g.phi[k].Sig, sc, "", t.This))
			} else {
				m.Vals = append(m.Vals, g.expr(g.phi[k], sc))
			}
		}
		if t.HasInit {
			m.Keys = append(m.Keys, strLit("init"))
			m.Vals = append(m.Vals, g.initLit(t, sc))
		}
		out = append(out, &Assign{Target: &Var{t.Name}, Rhs: m})
		sc.def[t.Name] = true
	}
	return out
}

func sortedKeys(m map[string]*Tmpl) []string {
	var ks []string
	for k := range m {
		ks = append(ks, k)
	}
	sortStrings(ks)
	return ks
}

func contains(a []string, s string) bool {
	for _, x := range a {
		if x == s {
			return true
		}
	}
	return false
}

func (g *gen) initLit(t *Tmpl, sc *sscope) *FuncLit {
	sig := t.InitSig
	f := &FuncLit{ID: g.nid()}
	fs := &sscope{def: map[string]bool{}, parent: sc, fn: true, sig: &Sig{Level: 99}, thisTy: t.This}
	for i, p := range sig.Params {
		f.Params = append(f.Params, Param{Name: p, Def: sig.Defs[i]})
		fs.def[p] = true
	}
	g.fnDepth++
	tick := &Rec{Tag: fmt.Sprintf("I%d", f.ID)}
	for _, p := range sig.Params {
		tick.Args = append(tick.Args, &Var{p})
	}
	f.Body = append(f.Body, tick)
	for _, fld := range t.InitFields {
		f.Body = append(f.Body, &Assign{Target: &Path{Root: "this", Steps: []Step{{Dot: true, Idx: strLit(fld)}}}, Rhs: g.expr(tyScalar, fs)})
	}
	for i, s := range t.Supers {
		if s.HasInit && g.chance(7, 10) {
			f.Body = append(f.Body, &ExprStmt{&Call{&Path{Root: "super", Steps: []Step{{Idx: numLit(float64(i))}}}, g.args(s.InitSig, fs, false)}})
		}
	}
	if g.budget > 0 {
		f.Body = append(f.Body, g.stmts(fs, g.r.Range(0, 2), 1)...)
	}
	g.fnDepth--
	return f
}

// ---------------------------------------------------------------------------
// whole programs

var poolNames = []string{"a", "b", "c", "d", "e", "f", "g", "h"}

func generate(r *core.Rand) *Program {
	g := &gen{r: r, gamma: map[string]*Ty{}, budget: r.Range(18, 46)}
	perm := r.Perm(len(poolNames))
	name := func(i int) string { return poolNames[perm[i]] }
	// two scalar names, at least one number
	g.scal = []string{name(0), name(1)}
	g.gamma[name(0)] = tyNum
	if r.Chance(1, 3) {
		g.gamma[name(1)] = tyNum
	} else {
		g.gamma[name(1)] = tyScalar
	}
	g.gamma["n"] = tyNum
	// two containers, often of the same type or one nested in the other
	g.conts = []string{name(2), name(3)}
	t1 := g.genTy(r.Range(1, 3))
	g.gamma[name(2)] = t1
	switch r.Intn(5) {
	case 0, 1:
		g.gamma[name(3)] = t1
	case 2:
		rs := g.reachOf(t1, 2)
		var cs []*Ty
		for _, x := range rs {
			if x.ty.K == kList || x.ty.K == kMap {
				cs = append(cs, x.ty)
			}
		}
		if len(cs) > 0 {
			g.gamma[name(3)] = cs[r.Intn(len(cs))]
		} else {
			g.gamma[name(3)] = g.genTy(r.Range(1, 2))
		}
	default:
		g.gamma[name(3)] = g.genTy(r.Range(1, 3))
	}
	// two function names
	g.funcs = []string{name(4), name(5)}
	g.gamma[name(4)] = &Ty{K: kFunc, Sig: g.genSig(nil, 1)}
	if rt := g.gamma[name(4)].Sig.Ret; rt.K == kFunc {
		// the second function name holds what the first one returns (returned closures get called)
		g.gamma[name(5)] = rt
	} else {
		g.gamma[name(5)] = &Ty{K: kFunc, Sig: g.genSig([]string{name(4)}, 1)}
	}
	if t1.K == kMap && r.Chance(1, 3) && isScalarTy(g.gamma[name(4)].Sig.Ret) {
		// a function value as a plain map member (no `this`)
		t1.Keys = append(t1.Keys, mkey{s: "fn"})
		t1.Vals = append(t1.Vals, g.gamma[name(4)])
		g.reachMemo = nil
	}
	global := &sscope{def: map[string]bool{}}
	var body []Stmt
	// prelude: a few definitions so that later code has something to refer to
	for _, n := range []string{name(0), name(2), name(1), name(3)} {
		if r.Chance(3, 4) {
			body = append(body, g.assignVar(global, 0, n)...)
		}
	}
	if r.Chance(1, 2) {
		body = append(body, g.genTemplates(global)...)
		g.objs = []string{name(6), name(7)}
		g.gamma[name(6)] = g.tmpls[len(g.tmpls)-1].Inst
		g.gamma[name(7)] = g.tmpls[r.Intn(len(g.tmpls))].Inst
	}
	for _, n := range g.funcs {
		if r.Chance(1, 2) {
			body = append(body, g.assignVar(global, 0, n)...)
		}
	}
	for g.budget > 0 {
		before := g.budget
		body = append(body, g.stmts(global, 1, 0)...)
		if g.budget == before {
			g.budget--
		}
	}
	p := &Program{Body: body}
	// probes: pure expressions on the global scope
	for _, rt := range g.rootsAll(global) {
		rs := g.reachOf(rt.ty, 3)
		for k := 0; k < 2 && len(rs) > 0; k++ {
			rc := rs[r.Intn(len(rs))]
			p.Probes = append(p.Probes, g.mkPath(rt.root, rc.steps))
		}
		if rt.ty.K != kTmpl {
			p.Probes = append(p.Probes, &Builtin{"len", []Expr{&Var{rt.root}}})
		}
	}
	p.Names = append(p.Names, poolNames...)
	p.Names = append(p.Names, "n", "zz", "this", "super")
	for _, t := range g.tmpls {
		p.Names = append(p.Names, t.Name)
	}
	p.Names = append(p.Names, g.used...)
	return p
}

func (g *gen) genSig(funcParams []string, depth int) *Sig {
	s := &Sig{}
	if g.chance(1, 4) {
		s.Rec = true
		s.Params = append(s.Params, "n")
		s.Defs = append(s.Defs, nil)
	}
	pool := append(append([]string{}, g.scal...), g.conts...)
	pool = append(pool, funcParams...)
	perm := g.r.Perm(len(pool))
	np := g.r.Intn(4)
	for i := 0; i < np && i < len(perm); i++ {
		p := pool[perm[i]]
		s.Params = append(s.Params, p)
		var d *Lit
		if t := g.gamma[p]; t.K == kNum {
			if g.chance(2, 3) {
				d = numLit(float64(g.r.Intn(5)))
			}
		} else if t.K == kScalar && g.chance(1, 3) {
			d = g.scalarLit()
		}
		s.Defs = append(s.Defs, d)
	}
	// a parameter without default must not be followed by... (no such rule in
	// ECAL: defaults are positional) - nothing to fix up
	switch g.r.Intn(10) {
	case 0, 1, 2:
		s.Ret = tyScalar
	case 3:
		s.Ret = tyNum
	case 4, 5:
		s.Ret = g.gamma[g.r.Pick(g.conts)]
	default:
		if depth > 0 {
			s.Ret = &Ty{K: kFunc, Sig: g.genSig(nil, depth-1)}
			s.Ret.Sig.Rec = false
			if len(s.Ret.Sig.Params) > 0 && s.Ret.Sig.Params[0] == "n" {
				s.Ret.Sig.Params = s.Ret.Sig.Params[1:]
				s.Ret.Sig.Defs = s.Ret.Sig.Defs[1:]
			}
		} else {
			s.Ret = tyScalar
		}
	}
	return s
}
