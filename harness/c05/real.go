package c05

import (
	"fmt"
	"sort"
	"strconv"
	"strings"
	"sync"

	"github.com/krotik/ecal/interpreter"
	"github.com/krotik/ecal/parser"
	"github.com/krotik/ecal/scope"
	"github.com/krotik/ecal/stdlib"
	"github.com/krotik/ecal/util"

	"verif/harness/core"
)

// The real side: parse + validate + evaluate the printed program with the
// interpreter of /repo, collect the marker trace, then evaluate the probe
// expressions on the same global scope and read the global variables.
//
// One process evaluates one program at a time (parsing is not re-entrant on
// the unchanged tree - that is C13's subject - and the stdlib function table
// is a plain map), so the recorder is a single package-level slot.

type recorder struct {
	trace    []string
	limit    int
	exceeded bool
}

var (
	recMu  sync.Mutex
	curRec *recorder
	regOne sync.Once
)

const markerBudgetMsg = "marker budget exceeded"

type recFunc struct{}

func (recFunc) Run(instanceID string, vs parser.Scope, is map[string]interface{}, tid uint64, args []interface{}) (interface{}, error) {
	recMu.Lock()
	defer recMu.Unlock()
	if curRec == nil {
		return nil, fmt.Errorf("marker called outside a case")
	}
	if len(curRec.trace) >= curRec.limit {
		// logical bound on run-away executions: every loop and function body of a
		// generated program starts with a marker call
		curRec.exceeded = true
		return nil, fmt.Errorf(markerBudgetMsg)
	}
	parts := make([]string, 0, len(args))
	for i, a := range args {
		if i == 0 {
			if s, ok := a.(string); ok {
				parts = append(parts, s)
				continue
			}
		}
		parts = append(parts, canonReal(a, 0))
	}
	curRec.trace = append(curRec.trace, strings.Join(parts, "|"))
	return nil, nil
}

func (recFunc) DocString() (string, error) { return "verification marker", nil }

func register() {
	regOne.Do(func() {
		stdlib.AddStdlibPkg(markerPkg, "verification markers")
		stdlib.AddStdlibFunc(markerPkg, "rec", recFunc{})
	})
}

// One runtime provider serves many cases of a process (a provider owns a cron
// goroutine whose Stop can block for a tick, and nothing a generated program
// does leaves state in it as long as the evaluation ends normally).
var curProvider *interpreter.ECALRuntimeProvider

func provider() *interpreter.ECALRuntimeProvider {
	if curProvider == nil {
		curProvider = interpreter.NewECALRuntimeProvider("c05", nil, util.NewMemoryLogger(10))
	}
	return curProvider
}

func dropProvider() {
	if curProvider != nil {
		go curProvider.Cron.Stop() // never synchronously: Stop can block on the cron tick
		curProvider = nil
	}
}

func canonReal(v interface{}, depth int) string {
	if depth > 24 {
		return "<too deep>"
	}
	switch x := v.(type) {
	case nil:
		return "null"
	case bool:
		if x {
			return "true"
		}
		return "false"
	case float64:
		return canonNum(x)
	case int:
		return canonNum(float64(x))
	case int64:
		return canonNum(float64(x))
	case string:
		return strconv.Quote(x)
	case []interface{}:
		parts := make([]string, len(x))
		for i, e := range x {
			parts[i] = canonReal(e, depth+1)
		}
		return "[" + strings.Join(parts, ",") + "]"
	case map[interface{}]interface{}:
		parts := make([]string, 0, len(x))
		for k, e := range x {
			var ks string
			switch kk := k.(type) {
			case float64:
				ks = fmtNum(kk)
			case string:
				ks = kk
			default:
				ks = fmt.Sprintf("<%T>%v", k, k)
			}
			parts = append(parts, strconv.Quote(ks)+":"+canonReal(e, depth+1))
		}
		sort.Strings(parts)
		return "{" + strings.Join(parts, ",") + "}"
	case util.ECALFunction:
		return "<func>"
	}
	return fmt.Sprintf("<%T>", v)
}

func shortErr(err error) string {
	s := err.Error()
	if len(s) > 300 {
		s = s[:300]
	}
	return s
}

// runReal executes the program text and the probes against /repo.
func runReal(src string, probes []string, names []string, limit int) (o obs, panicKey string) {
	register()
	rec := &recorder{limit: limit}
	recMu.Lock()
	curRec = rec
	recMu.Unlock()
	defer func() {
		recMu.Lock()
		curRec = nil
		recMu.Unlock()
	}()
	erp := provider()
	defer func() {
		if o.Err != "" {
			// an aborted evaluation may have left a mutex block locked
			dropProvider()
		}
	}()
	vs := scope.NewScope(scope.GlobalScope)
	tid := erp.NewThreadID()
	key, msg, panicked := core.Guard(func() {
		ast, err := parser.ParseWithRuntime("c05", src, erp)
		if err != nil {
			o.Err = "parse: " + shortErr(err)
			return
		}
		if err = ast.Runtime.Validate(); err != nil {
			o.Err = "validate: " + shortErr(err)
			return
		}
		if _, err = ast.Runtime.Eval(vs, make(map[string]interface{}), tid); err != nil {
			o.Err = "eval: " + shortErr(err)
		}
	})
	if panicked {
		o.Err = "panic: " + strings.SplitN(msg, "\n", 2)[0]
		panicKey = key
	}
	o.Trace = rec.trace
	if rec.exceeded {
		// the program may have swallowed the error (a finally block does)
		o.Err = "eval: " + markerBudgetMsg
	}
	if o.Err != "" {
		return
	}
	for _, ps := range probes {
		ps := ps
		var out string
		_, msg, panicked := core.Guard(func() {
			ast, err := parser.ParseWithRuntime("c05probe", ps, erp)
			if err != nil {
				out = "ERR parse: " + shortErr(err)
				return
			}
			if err = ast.Runtime.Validate(); err != nil {
				out = "ERR validate: " + shortErr(err)
				return
			}
			v, err := ast.Runtime.Eval(vs, make(map[string]interface{}), tid)
			if err != nil {
				out = "ERR eval: " + shortErr(err)
				return
			}
			out = canonReal(v, 0)
		})
		if panicked {
			out = "ERR panic: " + strings.SplitN(msg, "\n", 2)[0]
		}
		o.Probes = append(o.Probes, out)
	}
	for _, n := range names {
		n := n
		var out string
		_, msg, panicked := core.Guard(func() {
			v, ok, err := vs.GetValue(n)
			switch {
			case err != nil:
				out = "ERR " + shortErr(err)
			case !ok:
				out = "<undef>"
			default:
				out = canonReal(v, 0)
			}
		})
		if panicked {
			out = "ERR panic: " + strings.SplitN(msg, "\n", 2)[0]
		}
		o.Globals = append(o.Globals, out)
	}
	return
}
