package c05

import (
	"fmt"
	"os"
	"testing"
	"time"

	"verif/harness/core"
)

// go test -run TestDropped -v  (debug helper, prints dropped programs of a class)
func TestDropped(t *testing.T) {
	want := os.Getenv("DROP_CLASS")
	if want == "" {
		t.Skip()
	}
	shown := 0
	for i := 0; i < 3000 && shown < 4; i++ {
		c := &core.Ctx{Seed: 1}
		p := generate(c.Rng("gen", i))
		fr := runRef(p, false, nil)
		if fr.unspec != "" && dropClass(fr.unspec) == want {
			shown++
			fmt.Printf("==== %d %s\n%s\ntrace so far: %v\n", i, fr.unspec, Source(p.Body), fr.obs.Trace)
		}
	}
}

func TestTiming(t *testing.T) {
	if os.Getenv("TIMING") == "" {
		t.Skip()
	}
	c := &core.Ctx{Seed: 1}
	var progs []*Program
	t0 := time.Now()
	for i := 0; i < 1000; i++ {
		progs = append(progs, generate(c.Rng("gen", i)))
	}
	fmt.Println("generate", time.Since(t0))
	t0 = time.Now()
	var keep []*Program
	var traces []int
	for _, p := range progs {
		fr := runRef(p, false, nil)
		runRef(p, true, nil)
		if fr.unspec == "" {
			keep = append(keep, p)
			traces = append(traces, len(fr.obs.Trace))
		}
	}
	fmt.Println("ref x2", time.Since(t0), len(keep))
	t0 = time.Now()
	var srcs []string
	for _, p := range keep {
		srcs = append(srcs, Source(p.Body))
	}
	fmt.Println("print", time.Since(t0))
	t0 = time.Now()
	for i, p := range keep {
		runReal(srcs[i], nil, nil, traces[i]+20)
		_ = p
	}
	fmt.Println("real prog only", time.Since(t0))
	t0 = time.Now()
	for i, p := range keep {
		runReal(srcs[i], probeSources(p), p.Names, traces[i]+20)
	}
	fmt.Println("real with probes", time.Since(t0))
}
