package c05

import (
	"fmt"
	"sort"
	"strconv"
	"strings"
)

// Reference model: a store-passing interpreter over the generator's AST,
// written from the property statement and ecal.md. Environments are linked
// frames; scalars are immutable Go values, lists and maps are heap objects
// shared by reference. Whatever the statement leaves open is *detected* here
// and reported as "unspecified" so that the case is dropped instead of judged.

// Val is a model value: nil, bool, float64, string, *rList, *rMap, *rFunc, *sentinel.
type Val interface{}

type rList struct {
	e        []Val
	poisoned bool // was handed to add/del: "only the returned value should be used further"
}

type mkey struct {
	num bool
	n   float64
	s   string
}

type rMap struct {
	m        map[mkey]Val
	poisoned bool
}

type rFunc struct {
	lit     *FuncLit
	env     *frame
	this    Val
	hasThis bool
	super   *rList
}

// sentinel is a value the statement does not determine (result of a function
// that ends without return, an inherited property with two candidate values, a
// missing super constructor). Looking at it makes the case unspecified.
type sentinel struct{ why string }

type frame struct {
	vars    map[string]Val
	pending map[string]int
	parent  *frame
	kids    map[int]*frame
	fn      bool
}

func newFrame(parent *frame, fn bool) *frame {
	return &frame{vars: map[string]Val{}, parent: parent, fn: fn}
}

type unspecified struct{ why string }

// Known deviations of krotik/ecal, modelled as switches (see BUILDING-CHECKS.md).
const (
	devNumKeyWrite = "numkey-write-goes-to-string-key"
	devNumKeyDel   = "numkey-del-ignores-number-key"
)

var allDevs = []string{devNumKeyWrite, devNumKeyDel}

type ref struct {
	reuse bool // block frames persist per (parent frame, block) instead of being fresh per entry
	devs  map[string]bool
	fired map[string]bool
	trace []string
	fuel  int
	depth int
	feat  map[string]int
}

func (r *ref) unspec(format string, a ...interface{}) {
	panic(unspecified{fmt.Sprintf(format, a...)})
}

func (r *ref) f(name string) { r.feat[name]++ }

// lenient: runs with deviation switches on try to follow the interpreter as far
// as its behaviour is known and simple (they only classify an already observed
// difference; they never produce a "held").
func (r *ref) lenient() bool { return len(r.devs) > 0 }

func (r *ref) tick() {
	r.fuel--
	if r.fuel < 0 {
		r.unspec("fuel exhausted")
	}
}

// ---------------------------------------------------------------------------
// environments

func (r *ref) lookup(fr *frame, name string) (Val, bool) {
	crossed := false
	for f := fr; f != nil; f = f.parent {
		if f.pending[name] > 0 {
			r.unspec("the right side of `let %s` touches %s", name, name)
		}
		if v, ok := f.vars[name]; ok {
			if f != fr {
				if crossed && f.parent != nil {
					r.f("read.captured-nonglobal")
				} else if crossed {
					r.f("read.global-from-function")
				} else {
					r.f("read.enclosing-block")
				}
			}
			return v, true
		}
		if f.fn {
			crossed = true
		}
	}
	r.f("read.undefined")
	return nil, false
}

func (r *ref) assign(fr *frame, name string, v Val) {
	crossed := false
	for f := fr; f != nil; f = f.parent {
		if f.pending[name] > 0 {
			r.unspec("the right side of `let %s` touches %s", name, name)
		}
		if _, ok := f.vars[name]; ok {
			f.vars[name] = v
			if f != fr {
				if crossed && f.parent != nil {
					r.f("assign.captured-nonglobal")
				} else if crossed {
					r.f("assign.global-from-function")
				} else {
					r.f("assign.enclosing-block")
				}
			}
			return
		}
		if f.fn {
			crossed = true
		}
	}
	fr.vars[name] = v
	if fr.parent != nil {
		r.f("define.inner-by-assignment")
	}
}

func (r *ref) defineLocal(fr *frame, name string, v Val) {
	if _, ok := fr.vars[name]; !ok {
		for f := fr.parent; f != nil; f = f.parent {
			if _, ok := f.vars[name]; ok {
				r.f("let.shadows-outer")
				break
			}
		}
	}
	fr.vars[name] = v
}

func (r *ref) enter(fr *frame, id int) *frame {
	if r.reuse {
		if k := fr.kids[id]; k != nil {
			return k
		}
	}
	k := newFrame(fr, false)
	if r.reuse {
		if fr.kids == nil {
			fr.kids = map[int]*frame{}
		}
		fr.kids[id] = k
	}
	return k
}

// ---------------------------------------------------------------------------
// values

func isIntegral(f float64) bool { return f == float64(int64(f)) && f > -1e6 && f < 1e6 }

func (r *ref) toKey(k Val) mkey {
	switch x := k.(type) {
	case float64:
		if !isIntegral(x) {
			r.unspec("non-integer number used as key")
		}
		return mkey{num: true, n: x}
	case string:
		if strings.Contains(x, ".") {
			r.unspec("string key with a dot")
		}
		if _, err := strconv.Atoi(x); err == nil {
			r.unspec("string key that reads as an integer")
		}
		return mkey{s: x}
	}
	r.unspec("key is neither number nor string")
	return mkey{}
}

func (r *ref) listIndex(l *rList, k Val) int {
	if l.poisoned {
		r.unspec("list used after it was handed to add/del")
	}
	f, ok := k.(float64)
	if !ok || !isIntegral(f) {
		r.unspec("list index is not an integer")
	}
	i := int(f)
	if i < 0 || i >= len(l.e) {
		r.unspec("list index out of range")
	}
	return i
}

func (r *ref) mapGet(m *rMap, k mkey) (Val, bool) {
	if m.poisoned {
		r.unspec("map used after it was handed to del")
	}
	v, ok := m.m[k]
	if !ok && k.num {
		// only ever present while the numkey-write deviation is switched on
		v, ok = m.m[mkey{s: fmtNum(k.n)}]
	}
	return v, ok
}

// index reads container[key]. writePath marks navigation on the left side of
// an assignment.
func (r *ref) index(c Val, key Val, writePath bool) Val {
	switch x := c.(type) {
	case *rList:
		return x.e[r.listIndex(x, key)]
	case *rMap:
		k := r.toKey(key)
		if writePath && k.num {
			r.unspec("assignment path passes through a number key of a map")
		}
		v, ok := r.mapGet(x, k)
		if !ok {
			if r.lenient() {
				return nil
			}
			r.unspec("read of a missing map key")
		}
		return v
	case *sentinel:
		r.unspec("%s", x.why)
	}
	r.unspec("access into a non-container")
	return nil
}

func (r *ref) canon(v Val, depth int) string {
	if depth > 24 {
		r.unspec("value too deep (cyclic?)")
	}
	switch x := v.(type) {
	case nil:
		return "null"
	case bool:
		if x {
			return "true"
		}
		return "false"
	case float64:
		return canonNum(x)
	case string:
		return strconv.Quote(x)
	case *rList:
		if x.poisoned {
			r.unspec("list used after it was handed to add/del")
		}
		parts := make([]string, len(x.e))
		for i, e := range x.e {
			parts[i] = r.canon(e, depth+1)
		}
		return "[" + strings.Join(parts, ",") + "]"
	case *rMap:
		if x.poisoned {
			r.unspec("map used after it was handed to del")
		}
		parts := make([]string, 0, len(x.m))
		for k, e := range x.m {
			ks := k.s
			if k.num {
				ks = fmtNum(k.n)
			}
			parts = append(parts, strconv.Quote(ks)+":"+r.canon(e, depth+1))
		}
		sort.Strings(parts)
		return "{" + strings.Join(parts, ",") + "}"
	case *rFunc:
		return "<func>"
	case *sentinel:
		r.unspec("%s", x.why)
	}
	panic(fmt.Sprintf("canon: %T", v))
}

func canonNum(f float64) string { return strconv.FormatFloat(f, 'g', -1, 64) }

// ---------------------------------------------------------------------------
// expressions

func (r *ref) num(v Val) float64 {
	f, ok := v.(float64)
	if !ok {
		r.unspec("operand is not a number")
	}
	return f
}

func (r *ref) eval(e Expr, fr *frame) Val {
	switch x := e.(type) {
	case *Lit:
		return x.V
	case *Var:
		v, _ := r.lookup(fr, x.Name)
		return v
	case *Path:
		cur, ok := r.lookup(fr, x.Root)
		if !ok {
			r.unspec("path into an undefined variable")
		}
		dots, brs := 0, 0
		for _, s := range x.Steps {
			cur = r.index(cur, r.eval(s.Idx, fr), false)
			if s.Dot {
				dots++
			} else {
				brs++
			}
		}
		r.f(fmt.Sprintf("path.read.depth%d", len(x.Steps)))
		if dots > 0 && brs > 0 {
			r.f("path.read.mixed-dot-bracket")
		}
		return cur
	case *ListLit:
		l := &rList{}
		for _, el := range x.Elems {
			l.e = append(l.e, r.value(r.eval(el, fr)))
		}
		return l
	case *MapLit:
		m := &rMap{m: map[mkey]Val{}}
		for i, kl := range x.Keys {
			k := r.toKey(kl.V)
			if _, dup := m.m[k]; dup {
				r.unspec("duplicate key in map literal")
			}
			m.m[k] = r.value(r.eval(x.Vals[i], fr))
		}
		return m
	case *FuncLit:
		return &rFunc{lit: x, env: fr}
	case *Call:
		fv := r.eval(x.Fn, fr)
		fn, ok := fv.(*rFunc)
		if !ok {
			if s, ok := fv.(*sentinel); ok {
				r.unspec("%s", s.why)
			}
			r.unspec("call of a non-function")
		}
		args := make([]Val, len(x.Args))
		for i, a := range x.Args {
			args[i] = r.value(r.eval(a, fr))
		}
		if _, ok := x.Fn.(*Path); ok {
			r.f("call.via-path")
		}
		return r.call(fn, args)
	case *Builtin:
		args := make([]Val, len(x.Args))
		for i, a := range x.Args {
			args[i] = r.value(r.eval(a, fr))
		}
		return r.builtin(x.Name, args)
	case *Bin:
		a := r.num(r.eval(x.L, fr))
		b := r.num(r.eval(x.R, fr))
		switch x.Op {
		case "+":
			return a + b
		case "-":
			return a - b
		case "*":
			return a * b
		case "<":
			return a < b
		case "<=":
			return a <= b
		case ">":
			return a > b
		case ">=":
			return a >= b
		case "==":
			return a == b
		case "!=":
			return a != b
		}
	}
	panic(fmt.Sprintf("eval: %T", e))
}

// value rejects the undetermined result of a function without return when it
// is about to be stored or passed on.
func (r *ref) value(v Val) Val {
	if s, ok := v.(*sentinel); ok {
		r.unspec("%s", s.why)
	}
	return v
}

func (r *ref) call(fn *rFunc, args []Val) Val {
	r.tick()
	r.depth++
	if r.depth > 24 {
		r.unspec("call depth")
	}
	defer func() { r.depth-- }()
	fr := newFrame(fn.env, true)
	if fn.hasThis {
		fr.vars["this"] = fn.this
		r.f("call.with-this")
	}
	if fn.super != nil {
		fr.vars["super"] = fn.super
	}
	ps := fn.lit.Params
	switch {
	case len(args) < len(ps):
		r.f("call.fewer-args")
	case len(args) > len(ps):
		r.f("call.surplus-args")
	default:
		r.f("call.exact-args")
	}
	for i, p := range ps {
		var v Val
		if i < len(args) {
			v = args[i]
		} else if p.DefE != nil {
			// a default is code of the declaration: it sees the scope the function
			// was declared in (never the caller's, never the parameters)
			if fn.env == nil {
				r.unspec("default expression of a function without declaration frame")
			}
			v = r.value(r.eval(p.DefE, fn.env))
			r.f("call.default-used")
			r.f("call.default-expression")
		} else if p.Def != nil {
			v = p.Def.V
			r.f("call.default-used")
		}
		fr.vars[p.Name] = v
	}
	if fn.env != nil && fn.env.parent != nil {
		r.f("call.closure-over-nonglobal-frame")
	}
	if r.depth > 1 {
		r.f("call.nested")
	}
	ctl, v := r.block(fn.lit.Body, fr)
	if ctl == ctlReturn {
		return v
	}
	return &sentinel{"result of a function that ended without return"}
}

func (r *ref) list(v Val, what string) *rList {
	l, ok := v.(*rList)
	if !ok {
		r.unspec("%s: not a list", what)
	}
	if l.poisoned {
		r.unspec("list used after it was handed to add/del")
	}
	return l
}

func (r *ref) builtin(name string, args []Val) Val {
	r.f("builtin." + name)
	switch name {
	case "len":
		if len(args) != 1 {
			r.unspec("len arity")
		}
		switch x := args[0].(type) {
		case *rList:
			return float64(len(r.list(x, "len").e))
		case *rMap:
			if x.poisoned {
				r.unspec("map used after it was handed to del")
			}
			return float64(len(x.m))
		}
		r.unspec("len of a non-container")
	case "concat":
		if len(args) < 2 {
			r.unspec("concat arity")
		}
		res := &rList{}
		for _, a := range args {
			res.e = append(res.e, r.list(a, "concat").e...)
			if len(res.e) > maxListLen {
				r.unspec("fuel: list grows beyond the bound")
			}
		}
		return res
	case "add":
		if len(args) != 2 && len(args) != 3 {
			r.unspec("add arity")
		}
		l := r.list(args[0], "add")
		at := len(l.e)
		if len(args) == 3 {
			f, ok := args[2].(float64)
			if !ok || !isIntegral(f) || f < 0 || int(f) > len(l.e) {
				r.unspec("add index out of range")
			}
			at = int(f)
			r.f("builtin.add.at-index")
		}
		if len(l.e) >= maxListLen {
			r.unspec("fuel: list grows beyond the bound")
		}
		res := &rList{}
		res.e = append(res.e, l.e[:at]...)
		res.e = append(res.e, args[1])
		res.e = append(res.e, l.e[at:]...)
		l.poisoned = true
		return res
	case "del":
		if len(args) != 2 {
			r.unspec("del arity")
		}
		switch x := args[0].(type) {
		case *rList:
			i := r.listIndex(x, args[1])
			res := &rList{}
			res.e = append(res.e, x.e[:i]...)
			res.e = append(res.e, x.e[i+1:]...)
			x.poisoned = true
			r.f("builtin.del.list")
			return res
		case *rMap:
			if x.poisoned {
				r.unspec("map used after it was handed to del")
			}
			k := r.toKey(args[1])
			res := &rMap{m: map[mkey]Val{}}
			if r.lenient() {
				res = x // the interpreter removes in place and returns the same map
			} else {
				for kk, v := range x.m {
					res.m[kk] = v
				}
			}
			sk := mkey{s: fmtNum(k.n)}
			if k.num && r.devs[devNumKeyDel] {
				if _, has := res.m[k]; has {
					r.fired[devNumKeyDel] = true
				}
				delete(res.m, sk)
			} else {
				delete(res.m, k)
				if k.num {
					delete(res.m, sk)
				}
			}
			if k.num {
				r.f("builtin.del.map-number-key")
			} else {
				r.f("builtin.del.map-string-key")
			}
			x.poisoned = !r.lenient()
			return res
		}
		r.unspec("del of a non-container")
	case "new":
		return r.newObject(args)
	}
	panic("builtin " + name)
}

// ---------------------------------------------------------------------------
// objects

var (
	keySuper = mkey{s: "super"}
	keyInit  = mkey{s: "init"}
)

type definer struct {
	tmpl *rMap
	val  Val
	amb  bool
}

func (r *ref) supersOf(t *rMap) []*rMap {
	if t.poisoned {
		r.unspec("map used after it was handed to del")
	}
	sv, ok := t.m[keySuper]
	if !ok {
		return nil
	}
	sl, ok := sv.(*rList)
	if !ok || sl.poisoned {
		r.unspec("super is not a usable list")
	}
	var res []*rMap
	for _, s := range sl.e {
		sm, ok := s.(*rMap)
		if !ok {
			r.unspec("super entry is not a map")
		}
		res = append(res, sm)
	}
	return res
}

// resolve computes, for every property reachable from template t, the template
// that determines its value: the own definition wins over inherited ones; two
// different inherited definitions are left undetermined (the statement does not
// order super templates).
func (r *ref) resolve(t *rMap, depth int, count *int) map[mkey]*definer {
	if depth > 8 {
		r.unspec("inheritance too deep (cyclic?)")
	}
	*count++
	res := map[mkey]*definer{}
	for _, s := range r.supersOf(t) {
		for k, d := range r.resolve(s, depth+1, count) {
			if e, ok := res[k]; ok && (e.amb || d.amb || e.tmpl != d.tmpl) {
				res[k] = &definer{amb: true}
			} else {
				res[k] = d
			}
		}
	}
	for k, v := range t.m {
		res[k] = &definer{tmpl: t, val: v}
	}
	return res
}

func (r *ref) superInits(t *rMap, obj *rMap, depth int) *rList {
	if depth > 8 {
		r.unspec("inheritance too deep (cyclic?)")
	}
	sup := r.supersOf(t)
	if len(sup) == 0 {
		return nil
	}
	l := &rList{}
	for _, s := range sup {
		if iv, ok := s.m[keyInit]; ok {
			if fn, ok := iv.(*rFunc); ok {
				l.e = append(l.e, &rFunc{lit: fn.lit, env: fn.env, this: obj, hasThis: true, super: r.superInits(s, obj, depth+1)})
				continue
			}
		}
		l.e = append(l.e, &sentinel{"super template without an own constructor"})
	}
	return l
}

func (r *ref) newObject(args []Val) Val {
	if len(args) == 0 {
		r.unspec("new without template")
	}
	t, ok := args[0].(*rMap)
	if !ok {
		r.unspec("new of a non-map")
	}
	obj := &rMap{m: map[mkey]Val{}}
	n := 0
	res := r.resolve(t, 0, &n)
	sup := r.supersOf(t)
	switch {
	case len(sup) == 0:
		r.f("new.no-super")
	case len(sup) == 1:
		r.f("new.single-inheritance")
	default:
		r.f("new.multiple-inheritance")
	}
	if n > len(r.distinctTemplates(t, map[*rMap]bool{}, 0)) {
		r.f("new.diamond")
	}
	for k, d := range res {
		if d.amb {
			obj.m[k] = &sentinel{"property inherited from two super templates with different definitions"}
			continue
		}
		if fn, ok := d.val.(*rFunc); ok {
			nf := &rFunc{lit: fn.lit, env: fn.env, this: obj, hasThis: true}
			if k == keyInit {
				nf.super = r.superInits(d.tmpl, obj, 0)
			}
			obj.m[k] = nf
			if d.tmpl != t {
				r.f("new.inherited-method")
			}
		} else {
			obj.m[k] = d.val
			if d.tmpl != t && k != keySuper {
				r.f("new.inherited-property")
			}
		}
	}
	if iv, ok := obj.m[keyInit]; ok {
		switch fn := iv.(type) {
		case *rFunc:
			r.f("new.init-run")
			r.call(fn, args[1:])
		case *sentinel:
			r.unspec("%s", fn.why)
		default:
			r.unspec("init is not a function")
		}
	}
	return obj
}

func (r *ref) distinctTemplates(t *rMap, seen map[*rMap]bool, depth int) map[*rMap]bool {
	if depth > 8 || seen[t] {
		return seen
	}
	seen[t] = true
	for _, s := range r.supersOf(t) {
		r.distinctTemplates(s, seen, depth+1)
	}
	return seen
}

// ---------------------------------------------------------------------------
// statements

const (
	ctlNormal = iota
	ctlReturn
)

func (r *ref) block(body []Stmt, fr *frame) (int, Val) {
	for _, s := range body {
		if ctl, v := r.exec(s, fr); ctl != ctlNormal {
			return ctl, v
		}
	}
	return ctlNormal, nil
}

// target resolves the container and key an assignment path refers to.
func (r *ref) target(p *Path, fr *frame) (Val, Val) {
	cur, ok := r.lookup(fr, p.Root)
	if !ok {
		r.unspec("assignment into an undefined variable")
	}
	for _, s := range p.Steps[:len(p.Steps)-1] {
		cur = r.index(cur, r.eval(s.Idx, fr), true)
	}
	key := r.eval(p.Steps[len(p.Steps)-1].Idx, fr)
	switch c := cur.(type) {
	case *rList:
		r.listIndex(c, key)
	case *rMap:
		if c.poisoned {
			r.unspec("map used after it was handed to del")
		}
		r.toKey(key)
	case *sentinel:
		r.unspec("%s", c.why)
	default:
		r.unspec("assignment into a non-container")
	}
	return cur, key
}

func (r *ref) store(c Val, key Val, v Val) {
	switch x := c.(type) {
	case *rList:
		x.e[r.listIndex(x, key)] = v
		r.f("write.list-index")
	case *rMap:
		k := r.toKey(key)
		if k.num {
			r.f("write.map-number-key")
			// Representation: a number key that the map does not have yet is kept in
			// its text form (all reads, len, del and the comparison treat 5 and its
			// text form alike, and the two forms never coexist here). This makes no
			// observable difference for the model, but it lets the deviation switches
			// tell keys of literals from keys created by assignment, which is what
			// the interpreter's own representation distinguishes.
			_, has := x.m[k]
			if has && r.devs[devNumKeyWrite] {
				r.fired[devNumKeyWrite] = true
			}
			if !has || r.devs[devNumKeyWrite] {
				k = mkey{s: fmtNum(k.n)}
			}
		} else {
			r.f("write.map-string-key")
		}
		if _, has := x.m[k]; !has {
			r.f("write.map-new-key")
		}
		x.m[k] = v
	}
}

func (r *ref) exec(s Stmt, fr *frame) (int, Val) {
	r.tick()
	switch x := s.(type) {
	case *Assign:
		switch t := x.Target.(type) {
		case *Var:
			if x.Let {
				if fr.pending == nil {
					fr.pending = map[string]int{}
				}
				fr.pending[t.Name]++
				v := r.value(r.eval(x.Rhs, fr))
				fr.pending[t.Name]--
				r.defineLocal(fr, t.Name, v)
			} else {
				r.assign(fr, t.Name, r.value(r.eval(x.Rhs, fr)))
			}
		case *Path:
			c1, k1 := r.target(t, fr) // the left side is looked at before the right side runs
			v := r.value(r.eval(x.Rhs, fr))
			c2, k2 := r.target(t, fr)
			if c1 != c2 || k1 != k2 {
				r.unspec("right side changes what the left side refers to")
			}
			r.store(c2, k2, v)
			r.f(fmt.Sprintf("path.write.depth%d", len(t.Steps)))
		}
	case *MultiAssign:
		if x.Let {
			if fr.pending == nil {
				fr.pending = map[string]int{}
			}
			for _, n := range x.Names {
				fr.pending[n]++
			}
		}
		v := r.eval(x.Rhs, fr)
		if x.Let {
			for _, n := range x.Names {
				fr.pending[n]--
			}
		}
		l := r.list(v, "multi-assignment")
		if len(l.e) != len(x.Names) {
			r.unspec("multi-assignment length")
		}
		r.f("multi-assign")
		for i, n := range x.Names {
			if x.Let {
				r.defineLocal(fr, n, l.e[i])
			} else {
				r.assign(fr, n, l.e[i])
			}
		}
	case *ExprStmt:
		r.eval(x.E, fr)
	case *FuncDecl:
		// a function statement binds its name; the statement does not say whether
		// like `:=` or like `let`, so it must not be able to tell
		if _, here := fr.vars[x.F.Name]; !here {
			for f := fr.parent; f != nil; f = f.parent {
				if _, ok := f.vars[x.F.Name]; ok {
					r.unspec("function statement re-using a name of an enclosing scope")
				}
			}
		}
		if fr.pending[x.F.Name] > 0 {
			r.unspec("function statement inside its own let")
		}
		fr.vars[x.F.Name] = &rFunc{lit: x.F, env: fr}
		r.f("funcdecl")
	case *If:
		b := r.enter(fr, x.ID)
		c, ok := r.eval(x.Cond, b).(bool)
		if !ok {
			r.unspec("guard is not a boolean")
		}
		r.f("block.if")
		if c {
			return r.block(x.Then, b)
		} else if x.HasElse {
			return r.block(x.Else, b)
		}
	case *ForIn:
		b := r.enter(fr, x.ID)
		setVars := func(v Val) {
			if len(x.Vars) == 1 {
				r.loopVar(b, x.Vars[0], v)
				return
			}
			l := r.list(v, "loop destructuring")
			if len(l.e) != len(x.Vars) {
				r.unspec("loop destructuring length")
			}
			for i, n := range x.Vars {
				r.loopVar(b, n, l.e[i])
			}
		}
		if x.Range != nil {
			var a [3]float64
			a[2] = 1
			for i, e := range x.Range {
				a[i] = r.num(r.eval(e, b))
			}
			from, to, step := a[0], a[1], a[2]
			if len(x.Range) == 1 {
				from, to = 0, a[0]
			}
			if step == 0 || from == to || (from < to) != (step > 0) {
				r.unspec("degenerate range")
			}
			r.f("block.for-range")
			for v := from; (step > 0 && v <= to) || (step < 0 && v >= to); v += step {
				r.tick()
				setVars(v)
				if ctl, rv := r.block(x.Body, b); ctl != ctlNormal {
					return ctl, rv
				}
			}
		} else {
			l := r.list(r.eval(x.Iter, b), "loop")
			n := len(l.e)
			r.f("block.for-list")
			for i := 0; i < n; i++ {
				r.tick()
				if l.poisoned || i >= len(l.e) {
					r.unspec("list handed to add/del while it is iterated")
				}
				setVars(l.e[i])
				if ctl, rv := r.block(x.Body, b); ctl != ctlNormal {
					return ctl, rv
				}
			}
		}
	case *ForGuard:
		b := r.enter(fr, x.ID)
		r.f("block.for-guard")
		for {
			r.tick()
			c, ok := r.eval(x.Cond, b).(bool)
			if !ok {
				r.unspec("guard is not a boolean")
			}
			if !c {
				break
			}
			if ctl, rv := r.block(x.Body, b); ctl != ctlNormal {
				return ctl, rv
			}
		}
	case *Try:
		r.f("block.try-finally")
		ctl, rv := r.block(x.Body, r.enter(fr, x.ID))
		if x.HasOth && ctl == ctlNormal {
			// the otherwise block is a sibling of the try block, not its child
			r.f("block.try-otherwise")
			ctl, rv = r.block(x.Otherwise, r.enter(fr, x.OthID))
		}
		if c2, _ := r.block(x.Finally, r.enter(fr, x.FinID)); c2 != ctlNormal {
			r.unspec("return inside finally")
		}
		return ctl, rv
	case *Mutex:
		r.f("block.mutex")
		return r.block(x.Body, r.enter(fr, x.ID))
	case *Return:
		if r.depth == 0 {
			r.unspec("return outside a function")
		}
		return ctlReturn, r.value(r.eval(x.E, fr))
	case *Rec:
		parts := []string{x.Tag}
		for _, a := range x.Args {
			parts = append(parts, r.canon(r.eval(a, fr), 0))
		}
		r.trace = append(r.trace, strings.Join(parts, "|"))
	default:
		panic(fmt.Sprintf("exec: %T", s))
	}
	return ctlNormal, nil
}

// loopVar binds a loop variable. Whether it is local to the loop is not in the
// statement, so it must not collide with a name of an enclosing scope.
func (r *ref) loopVar(b *frame, name string, v Val) {
	for f := b.parent; f != nil; f = f.parent {
		if _, ok := f.vars[name]; ok {
			r.unspec("loop variable re-using a name of an enclosing scope")
		}
	}
	b.vars[name] = v
}

// ---------------------------------------------------------------------------
// running a program

const undetermined = "?"

// obs is what is compared between the reference and the real interpreter.
type obs struct {
	Err     string   // real side only: parse / validate / eval error or panic
	Trace   []string // marker calls
	Probes  []string // canonical probe values; "?" on the reference side = not determined
	Globals []string // per Program.Names: canonical value, "<undef>", or "?"
}

type refResult struct {
	obs     obs
	unspec  string // non-empty: the statement does not determine this program
	fired   map[string]bool
	feat    map[string]int
	fuelUse int
}

const refFuel = 4000
const maxListLen = 48

func runRef(p *Program, reuse bool, devs map[string]bool) (res refResult) {
	r := &ref{reuse: reuse, devs: devs, fired: map[string]bool{}, fuel: refFuel, feat: map[string]int{}}
	res.fired = r.fired
	res.feat = r.feat
	global := newFrame(nil, false)
	func() {
		defer func() {
			if e := recover(); e != nil {
				u, ok := e.(unspecified)
				if !ok {
					panic(e)
				}
				res.unspec = u.why
			}
		}()
		if ctl, _ := r.block(p.Body, global); ctl != ctlNormal {
			r.unspec("return outside a function")
		}
	}()
	res.fuelUse = refFuel - r.fuel
	res.obs.Trace = r.trace
	if res.unspec != "" {
		return
	}
	guarded := func(f func() string) (s string) {
		defer func() {
			if e := recover(); e != nil {
				if _, ok := e.(unspecified); !ok {
					panic(e)
				}
				s = undetermined
			}
		}()
		return f()
	}
	for _, pe := range p.Probes {
		pe := pe
		r.fuel = 200
		res.obs.Probes = append(res.obs.Probes, guarded(func() string { return r.canon(r.eval(pe, global), 0) }))
	}
	for _, n := range p.Names {
		n := n
		res.obs.Globals = append(res.obs.Globals, guarded(func() string {
			v, ok := global.vars[n]
			if !ok {
				return "<undef>"
			}
			return r.canon(v, 0)
		}))
	}
	return
}
