package c05

import (
	"fmt"
	"strconv"
	"strings"
)

// The generator's own program representation. The reference model interprets
// this tree; the real interpreter gets the printed source text.

// Expr is an expression node.
type Expr interface{}

// Lit is a scalar literal: nil, bool, float64 or string.
type Lit struct{ V interface{} }

// Var reads a variable.
type Var struct{ Name string }

// Step is one container access step: c.key (Dot) or c[expr].
type Step struct {
	Dot bool
	Idx Expr // Dot: *Lit with an identifier-like string
}

// Path is a variable followed by one or more access steps.
type Path struct {
	Root  string
	Steps []Step
}

// ListLit is a list literal.
type ListLit struct{ Elems []Expr }

// MapLit is a map literal; keys are number or string literals.
type MapLit struct {
	Keys []*Lit
	Vals []Expr
}

// Param is a function parameter with an optional default: a literal (Def) or,
// if DefE is set, a side-effect free expression over names of the scope the
// function is declared in.
type Param struct {
	Name string
	Def  *Lit
	DefE Expr
}

// FuncLit is a function literal (Name != "" only inside a FuncDecl).
type FuncLit struct {
	ID     int
	Name   string
	Params []Param
	Body   []Stmt
}

// Call calls a function value found in a variable or at a path.
type Call struct {
	Fn   Expr // *Var or *Path
	Args []Expr
}

// Builtin is one of len, add, del, concat, new.
type Builtin struct {
	Name string
	Args []Expr
}

// Bin is a binary operation on numbers: + - * < <= > >= == !=.
type Bin struct {
	Op   string
	L, R Expr
}

// Stmt is a statement node.
type Stmt interface{}

// Assign is `target := rhs` or `let name := rhs`.
type Assign struct {
	Let    bool
	Target Expr // *Var or *Path
	Rhs    Expr
}

// MultiAssign is `[a, b] := rhs`.
type MultiAssign struct {
	Let   bool
	Names []string
	Rhs   Expr
}

// ExprStmt evaluates an expression for its effects.
type ExprStmt struct{ E Expr }

// FuncDecl is a named function statement.
type FuncDecl struct{ F *FuncLit }

// If is an if / else statement (one block scope).
type If struct {
	ID      int
	Cond    Expr
	Then    []Stmt
	Else    []Stmt
	HasElse bool
}

// ForIn loops over range(args...) or over a list value.
type ForIn struct {
	ID    int
	Vars  []string // one name, or several for destructuring
	Range []Expr   // non-nil: range(...) arguments
	Iter  Expr     // else: the list expression
	Body  []Stmt
}

// ForGuard is a condition loop.
type ForGuard struct {
	ID   int
	Cond Expr
	Body []Stmt
}

// Try is try { } [except e { }] [otherwise { }] finally { }. No errors are ever
// raised by generated programs: an except clause never runs, the otherwise
// block runs whenever the try block ended normally.
type Try struct {
	ID, FinID int
	Body      []Stmt
	Finally   []Stmt
	Except    bool // print a catch-all except clause (its marker must never appear)
	HasOth    bool
	OthID     int
	Otherwise []Stmt
}

// Mutex is a mutex block.
type Mutex struct {
	ID   int
	Name string
	Body []Stmt
}

// Return returns from the innermost function.
type Return struct{ E Expr }

// Rec is a call of the marker function: c5.rec("tag", args...).
type Rec struct {
	Tag  string
	Args []Expr
}

// Program is a generated case.
type Program struct {
	Body   []Stmt
	Probes []Expr   // pure expressions evaluated on the global scope afterwards
	Names  []string // names whose global-scope value is compared
}

// ---------------------------------------------------------------------------
// printing

const markerPkg = "c5"

func fmtNum(f float64) string { return strconv.FormatFloat(f, 'f', -1, 64) }

func litSrc(l *Lit) string {
	switch v := l.V.(type) {
	case nil:
		return "null"
	case bool:
		if v {
			return "true"
		}
		return "false"
	case float64:
		return fmtNum(v)
	case string:
		return strconv.Quote(v)
	}
	panic(fmt.Sprintf("bad literal %T", l.V))
}

type printer struct {
	b   strings.Builder
	ind int
}

func (p *printer) nl() {
	p.b.WriteByte('\n')
	for i := 0; i < p.ind; i++ {
		p.b.WriteString("  ")
	}
}

func (p *printer) expr(e Expr) {
	switch x := e.(type) {
	case *Lit:
		p.b.WriteString(litSrc(x))
	case *Var:
		p.b.WriteString(x.Name)
	case *Path:
		p.b.WriteString(x.Root)
		for _, s := range x.Steps {
			if s.Dot {
				p.b.WriteByte('.')
				p.b.WriteString(s.Idx.(*Lit).V.(string))
			} else {
				p.b.WriteByte('[')
				p.expr(s.Idx)
				p.b.WriteByte(']')
			}
		}
	case *ListLit:
		p.b.WriteByte('[')
		for i, el := range x.Elems {
			if i > 0 {
				p.b.WriteString(", ")
			}
			p.expr(el)
		}
		p.b.WriteByte(']')
	case *MapLit:
		p.b.WriteByte('{')
		for i := range x.Keys {
			if i > 0 {
				p.b.WriteString(", ")
			}
			p.b.WriteString(litSrc(x.Keys[i]))
			p.b.WriteString(" : ")
			p.expr(x.Vals[i])
		}
		p.b.WriteByte('}')
	case *FuncLit:
		p.funcLit(x)
	case *Call:
		p.expr(x.Fn)
		p.args(x.Args)
	case *Builtin:
		p.b.WriteString(x.Name)
		p.args(x.Args)
	case *Bin:
		p.operand(x.L)
		p.b.WriteString(" " + x.Op + " ")
		p.operand(x.R)
	default:
		panic(fmt.Sprintf("bad expr %T", e))
	}
}

func (p *printer) operand(e Expr) {
	if _, ok := e.(*Bin); ok {
		p.b.WriteByte('(')
		p.expr(e)
		p.b.WriteByte(')')
		return
	}
	p.expr(e)
}

func (p *printer) args(a []Expr) {
	p.b.WriteByte('(')
	for i, el := range a {
		if i > 0 {
			p.b.WriteString(", ")
		}
		p.expr(el)
	}
	p.b.WriteByte(')')
}

func (p *printer) funcLit(f *FuncLit) {
	p.b.WriteString("func")
	if f.Name != "" {
		p.b.WriteString(" " + f.Name)
	}
	p.b.WriteByte('(')
	for i, pa := range f.Params {
		if i > 0 {
			p.b.WriteString(", ")
		}
		p.b.WriteString(pa.Name)
		if pa.DefE != nil {
			p.b.WriteString("=")
			p.expr(pa.DefE)
		} else if pa.Def != nil {
			p.b.WriteString("=" + litSrc(pa.Def))
		}
	}
	p.b.WriteString(") ")
	p.block(f.Body)
}

func (p *printer) block(body []Stmt) {
	p.b.WriteByte('{')
	p.ind++
	for _, s := range body {
		p.nl()
		p.stmt(s)
	}
	p.ind--
	p.nl()
	p.b.WriteByte('}')
}

func (p *printer) stmt(s Stmt) {
	switch x := s.(type) {
	case *Assign:
		if x.Let {
			p.b.WriteString("let ")
		}
		p.expr(x.Target)
		p.b.WriteString(" := ")
		p.expr(x.Rhs)
	case *MultiAssign:
		if x.Let {
			p.b.WriteString("let ")
		}
		p.b.WriteString("[" + strings.Join(x.Names, ", ") + "] := ")
		p.expr(x.Rhs)
	case *ExprStmt:
		p.expr(x.E)
	case *FuncDecl:
		p.funcLit(x.F)
	case *If:
		p.b.WriteString("if ")
		p.expr(x.Cond)
		p.b.WriteByte(' ')
		p.block(x.Then)
		if x.HasElse {
			p.b.WriteString(" else ")
			p.block(x.Else)
		}
	case *ForIn:
		p.b.WriteString("for ")
		if len(x.Vars) == 1 {
			p.b.WriteString(x.Vars[0])
		} else {
			p.b.WriteString("[" + strings.Join(x.Vars, ", ") + "]")
		}
		p.b.WriteString(" in ")
		if x.Range != nil {
			p.b.WriteString("range")
			p.args(x.Range)
		} else {
			p.expr(x.Iter)
		}
		p.b.WriteByte(' ')
		p.block(x.Body)
	case *ForGuard:
		p.b.WriteString("for ")
		p.expr(x.Cond)
		p.b.WriteByte(' ')
		p.block(x.Body)
	case *Try:
		p.b.WriteString("try ")
		p.block(x.Body)
		if x.Except {
			p.b.WriteString(" except e ")
			p.block([]Stmt{&Rec{Tag: fmt.Sprintf("EXC%d", x.ID)}})
		}
		if x.HasOth {
			p.b.WriteString(" otherwise ")
			p.block(x.Otherwise)
		}
		p.b.WriteString(" finally ")
		p.block(x.Finally)
	case *Mutex:
		p.b.WriteString("mutex " + x.Name + " ")
		p.block(x.Body)
	case *Return:
		p.b.WriteString("return ")
		p.expr(x.E)
	case *Rec:
		p.b.WriteString(markerPkg + ".rec(" + strconv.Quote(x.Tag))
		for _, a := range x.Args {
			p.b.WriteString(", ")
			p.expr(a)
		}
		p.b.WriteByte(')')
	default:
		panic(fmt.Sprintf("bad stmt %T", s))
	}
}

// Source prints statements as ECAL source text.
func Source(body []Stmt) string {
	p := &printer{}
	for i, s := range body {
		if i > 0 {
			p.nl()
		}
		p.stmt(s)
	}
	p.b.WriteByte('\n')
	return p.b.String()
}

// ExprSource prints one expression.
func ExprSource(e Expr) string {
	p := &printer{}
	p.expr(e)
	return p.b.String()
}
