package c15

import (
	"fmt"
	"reflect"
	"runtime"
	"sort"
	"strings"
	"sync"
	"sync/atomic"
	"time"
	"unsafe"

	"github.com/krotik/common/datautil"
	"github.com/krotik/ecal/engine/pool"
	"github.com/krotik/ecal/parser"
	"github.com/krotik/ecal/util"

	"verif/harness/sched"
)

// ---------------------------------------------------------------------------
// process-wide hook dispatch: one sched.Tracer, events are routed to the case
// that owns the debugger object named in the first hook argument

type hub struct {
	tr    *sched.Tracer
	cases sync.Map // debugger object -> *caseMon
}

var (
	hubOnce sync.Once
	theHub  *hub
)

func getHub() *hub {
	hubOnce.Do(func() {
		h := &hub{tr: sched.NewTracer()}
		h.tr.Keep = false
		h.tr.Filter = func(point string, args []interface{}) bool { return strings.HasPrefix(point, "dbg.") }
		h.tr.Observer = h.observe
		h.tr.Install()
		theHub = h
	})
	return theHub
}

func (h *hub) observe(ev sched.Event) {
	if len(ev.Args) == 0 {
		return
	}
	if m, ok := h.cases.Load(ev.Args[0]); ok {
		m.(*caseMon).onHook(ev)
	}
}

// ---------------------------------------------------------------------------
// per-case monitor state

type hookEv struct {
	seq   int64
	g     uint64
	point string // dbg.beforewait | dbg.resumed | dbg.broadcast
	tid   uint64
	line  int
	site  string // step | breakpoint | error   (beforewait / resumed)
	kind  string // continue | stopthreads       (broadcast)
}

// arrival is a visit of a line that differs from the line visited before by
// the same thread; [v0, v1] is the interval of the real VisitState call.
type arrival struct {
	tid    uint64
	src    string
	line   int
	v0, v1 int64
}

type contRec struct {
	tid      uint64
	cmd      string
	c0, c1   int64
	panicked bool // the command panicked (stepout on an empty call stack: C16)
}

type bpOp struct {
	kind   string // set | disable | remove | removeall
	line   int
	c0, c1 int64
}

type caseMon struct {
	tr       *sched.Tracer
	mu       sync.Mutex
	hooks    []hookEv
	arrivals []arrival
	last     map[uint64][2]interface{}
	conts    []contRec
	bpops    []bpOp
	stops    []contRec // StopThreads calls (tid unused)
	nvisits  int64
	nhooks   int64
	wake     chan struct{}
}

func newCaseMon(tr *sched.Tracer) *caseMon {
	return &caseMon{tr: tr, last: map[uint64][2]interface{}{}, wake: make(chan struct{}, 1)}
}

func (m *caseMon) poke() {
	select {
	case m.wake <- struct{}{}:
	default:
	}
}

func argU64(a interface{}) uint64 {
	switch v := a.(type) {
	case uint64:
		return v
	case int:
		return uint64(v)
	case int64:
		return uint64(v)
	}
	return 0
}

func (m *caseMon) onHook(ev sched.Event) {
	h := hookEv{seq: ev.Seq, g: ev.G, point: ev.Point}
	a := ev.Args
	switch ev.Point {
	case "dbg.beforewait": // ed, tid, line, site
		if len(a) >= 4 {
			h.tid = argU64(a[1])
			h.line, _ = a[2].(int)
			h.site, _ = a[3].(string)
		}
	case "dbg.resumed": // ed, tid, site
		if len(a) >= 3 {
			h.tid = argU64(a[1])
			h.site, _ = a[2].(string)
		}
	case "dbg.broadcast": // ed, "continue", tid | ed, "stopthreads"
		if len(a) >= 2 {
			h.kind, _ = a[1].(string)
		}
		if len(a) >= 3 {
			h.tid = argU64(a[2])
		}
	default:
		return
	}
	m.mu.Lock()
	m.hooks = append(m.hooks, h)
	m.mu.Unlock()
	atomic.AddInt64(&m.nhooks, 1)
	m.poke()
}

// hookSnapshot returns the hook events ordered by the logical clock.
func (m *caseMon) hookSnapshot() []hookEv {
	m.mu.Lock()
	r := make([]hookEv, len(m.hooks))
	copy(r, m.hooks)
	m.mu.Unlock()
	sort.Slice(r, func(i, j int) bool { return r[i].seq < r[j].seq })
	return r
}

func (m *caseMon) arrive(tid uint64, src string, line int) int {
	m.mu.Lock()
	defer m.mu.Unlock()
	if l, ok := m.last[tid]; ok && l[1] == line {
		// same line number as the previous visit of this thread (the source
		// is recorded but lines are compared by number, like the statement's
		// "from a different line")
		return -1
	}
	m.last[tid] = [2]interface{}{src, line}
	m.arrivals = append(m.arrivals, arrival{tid: tid, src: src, line: line, v0: m.tr.Stamp()})
	return len(m.arrivals) - 1
}

func (m *caseMon) leave(idx int) {
	s := m.tr.Stamp()
	m.mu.Lock()
	m.arrivals[idx].v1 = s
	m.mu.Unlock()
}

// ---------------------------------------------------------------------------
// tracing wrapper around the real debugger (pure delegation + recording)

type traceDbg struct {
	inner util.ECALDebugger
	m     *caseMon

	dead    int32  // a command did not return: the debugger is not called any more
	witness string // goroutine dump excerpt of the lock that is held for good ("" = none found)
	deadCmd string
}

const dbgFrame = "github.com/krotik/ecal/interpreter.(*ecalDebugger)."

// cmd runs a debugger command (never a Visit* call of a debugged thread) on a
// goroutine of its own and waits for it. A command that does not return is
// decided by sched.LockHeldForGood, never by the time it took; from then on
// the debugger of this session is left alone.
func (w *traceDbg) cmd(name string, f func()) {
	if atomic.LoadInt32(&w.dead) == 1 {
		return
	}
	done := make(chan interface{}, 1)
	var gid uint64
	go func() {
		atomic.StoreUint64(&gid, sched.GoID())
		defer func() { done <- recover() }()
		f()
	}()
	for i := 0; ; i++ {
		select {
		case r := <-done:
			if r != nil {
				panic(r)
			}
			return
		default:
		}
		if i < 300 {
			runtime.Gosched()
			continue
		}
		time.Sleep(40 * time.Microsecond)
		if i > 3000 && i%1000 == 0 {
			if ok, wit := sched.LockHeldForGood(sched.Dump(), atomic.LoadUint64(&gid), dbgFrame); ok {
				w.witness, w.deadCmd = wit, name
				atomic.StoreInt32(&w.dead, 1)
				return
			}
		}
		if i > 400000 {
			w.deadCmd = name
			atomic.StoreInt32(&w.dead, 1)
			return
		}
	}
}

func (w *traceDbg) HandleInput(input string) (res interface{}, err error) {
	w.cmd("HandleInput "+input, func() { res, err = w.inner.HandleInput(input) })
	return
}
func (w *traceDbg) StopThreads(d time.Duration) (res bool) {
	w.cmd("StopThreads", func() { res = w.inner.StopThreads(d) })
	return
}
func (w *traceDbg) BreakOnStart(flag bool) { w.cmd("BreakOnStart", func() { w.inner.BreakOnStart(flag) }) }
func (w *traceDbg) BreakOnError(flag bool) { w.cmd("BreakOnError", func() { w.inner.BreakOnError(flag) }) }
func (w *traceDbg) SetLockingState(o map[string]uint64, l *datautil.RingBuffer) {
	w.inner.SetLockingState(o, l)
}
func (w *traceDbg) SetThreadPool(tp *pool.ThreadPool) { w.inner.SetThreadPool(tp) }

func (w *traceDbg) VisitState(node *parser.ASTNode, vs parser.Scope, tid uint64) util.TraceableRuntimeError {
	if node.Token == nil {
		return w.inner.VisitState(node, vs, tid)
	}
	atomic.AddInt64(&w.m.nvisits, 1)
	idx := w.m.arrive(tid, node.Token.Lsource, node.Token.Lline)
	err := w.inner.VisitState(node, vs, tid)
	if idx >= 0 {
		w.m.leave(idx)
	}
	return err
}

func (w *traceDbg) VisitStepInState(node *parser.ASTNode, vs parser.Scope, tid uint64) util.TraceableRuntimeError {
	return w.inner.VisitStepInState(node, vs, tid)
}

func (w *traceDbg) VisitStepOutState(node *parser.ASTNode, vs parser.Scope, tid uint64, soErr error) util.TraceableRuntimeError {
	return w.inner.VisitStepOutState(node, vs, tid, soErr)
}
func (w *traceDbg) RecordThreadFinished(tid uint64)       { w.inner.RecordThreadFinished(tid) }
func (w *traceDbg) SetBreakPoint(source string, line int) {
	w.cmd("SetBreakPoint", func() { w.inner.SetBreakPoint(source, line) })
}
func (w *traceDbg) DisableBreakPoint(source string, line int) {
	w.cmd("DisableBreakPoint", func() { w.inner.DisableBreakPoint(source, line) })
}
func (w *traceDbg) RemoveBreakPoint(source string, line int) {
	w.cmd("RemoveBreakPoint", func() { w.inner.RemoveBreakPoint(source, line) })
}
func (w *traceDbg) ExtractValue(threadID uint64, varName string, destVarName string) (err error) {
	w.cmd("ExtractValue", func() { err = w.inner.ExtractValue(threadID, varName, destVarName) })
	return
}
func (w *traceDbg) InjectValue(threadID uint64, varName string, expression string) (err error) {
	w.cmd("InjectValue", func() { err = w.inner.InjectValue(threadID, varName, expression) })
	return
}
func (w *traceDbg) Continue(threadID uint64, contType util.ContType) {
	w.cmd(fmt.Sprintf("Continue %d %v", threadID, contType), func() { w.inner.Continue(threadID, contType) })
}
func (w *traceDbg) Status() (res interface{}) {
	w.cmd("Status", func() { res = w.inner.Status() })
	return
}
func (w *traceDbg) LockState() (res interface{}) {
	w.cmd("LockState", func() { res = w.inner.LockState() })
	return
}
func (w *traceDbg) Describe(threadID uint64) (res interface{}) {
	w.cmd("Describe", func() { res = w.inner.Describe(threadID) })
	return
}

// ---------------------------------------------------------------------------
// clean-up after a stuck verdict: wake the parked goroutine by broadcasting on
// its (unexported) condition variable. This is not part of any oracle – the
// verdict has been taken before – it only keeps the child process free of
// parked goroutines and lets the case run on. Best effort: any surprise in the
// layout of the debugger object makes it a no-op (the goroutine then leaks
// until the batch process ends).

func rescueBroadcast(ed util.ECALDebugger, tid uint64) (ok bool) {
	defer func() {
		if recover() != nil {
			ok = false
		}
	}()
	v := reflect.ValueOf(ed)
	if v.Kind() != reflect.Ptr {
		return false
	}
	s := v.Elem()
	lf := s.FieldByName("lock")
	if !lf.IsValid() || lf.Kind() != reflect.Ptr || lf.Type().Elem() != reflect.TypeOf(sync.RWMutex{}) {
		return false
	}
	lock := (*sync.RWMutex)(unsafe.Pointer(lf.Pointer()))
	f := s.FieldByName("interrogationStates")
	if !f.IsValid() || f.Kind() != reflect.Map {
		return false
	}
	var cond *sync.Cond
	lock.RLock()
	is := f.MapIndex(reflect.ValueOf(tid))
	if is.IsValid() && is.Kind() == reflect.Ptr && !is.IsNil() {
		cf := is.Elem().FieldByName("cond")
		if cf.IsValid() && cf.Kind() == reflect.Ptr && cf.Type().Elem() == reflect.TypeOf(sync.Cond{}) && !cf.IsNil() {
			cond = (*sync.Cond)(unsafe.Pointer(cf.Pointer()))
		}
	}
	lock.RUnlock()
	if cond == nil {
		return false
	}
	cond.L.Lock()
	cond.Broadcast()
	cond.L.Unlock()
	return true
}
