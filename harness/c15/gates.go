package c15

import (
	"fmt"
	"sync/atomic"
	"time"

	"verif/harness/core"
	"verif/harness/sched"
)

// Directed gates for oracle (3): the debugged thread is held at hook point
// dbg.beforewait (it has marked itself suspended / registered its state and
// has not yet called cond.Wait) until the partner's wake-up
// (dbg.broadcast) has been delivered; then the gate opens. The verdict is the
// stuck predicate of session.findStuck, never a stopwatch.

const gateProgA = `a := 1
func f(x) {
    let y := x + 1
    log("in f ", y)
    return y * 2
}
func g(x) {
    let z := f(x) + 1
    return z
}
b := f(a)
log("b=", b)
for i in range(1, 2) {
    b := b + g(i)
}
try {
    raise("ErrA", "boom", [b])
} except "ErrA" as e {
    log("caught ", e.detail)
}
log("end ", b)
`

// line numbers of gateProgA
const (
	laFirst  = 1
	laInF    = 4
	laInG    = 8
	laCall   = 11
	laAfter  = 12
	laLoop   = 14
	laTry    = 16
	laRaise  = 17
	laEnd    = 21
	gateALen = 21
)

const gateProgSink = `func h(x) {
    let q := x + 1
    return q
}
sink s1
    kindmatch ["job.a"],
    priority 0
    {
    let id := event.state.id
    let acc := h(id)
    try {
        raise("ErrS", "in sink", [id])
    } except "ErrS" as e {
        acc := acc + 10
    }
    log("s1 ", id, " ", acc)
    }
addEventAndWait("e1", "job.a", {"id": 1})
addEventAndWait("e2", "job.a", {"id": 2})
log("main end")
`

const (
	lsInH    = 2
	lsSink1  = 9
	lsSink2  = 10
	lsLog    = 16
	gateSLen = 20
)

type gateScn struct {
	name    string
	sinkP   bool
	bps     []int
	site    string // wait site that is gated: breakpoint | step | error
	nth     int    // which wait of that site (1-based)
	pre     string // command for the suspensions before the gated one
	rel     string // resume | stepin | stepover | stepout | stopthreads
	boe     bool   // break on error
	bos     bool   // break on start
	threads int    // additional threads evaluating the same tree
	noGate  bool   // all threads really parked, then StopThreads
	via     bool
}

func gateScenarios() []gateScn {
	var r []gateScn
	rels := []string{"resume", "stepin", "stepover", "stepout", "stopthreads"}
	add := func(s gateScn) {
		if s.site != "error" {
			s.boe = len(r)%2 == 0 // break on error at its default in half of the other scenarios
		}
		s.name = fmt.Sprintf("%s/%s#%d/bp%v/pre=%s/rel=%s", map[bool]string{false: "A", true: "S"}[s.sinkP], s.site, s.nth, s.bps, s.pre, s.rel)
		if s.bos {
			s.name += "/bos"
		}
		if !s.boe {
			s.name += "/noboe"
		}
		if s.threads > 0 {
			s.name += fmt.Sprintf("/threads=%d", s.threads+1)
		}
		if s.noGate {
			s.name += "/nogate"
		}
		if s.via {
			s.name += "/input"
		}
		r = append(r, s)
	}
	// breakpoint site: top level first line, inside f (1st, 2nd hit), inside g->f nesting, after call, in loop
	for _, rel := range rels {
		add(gateScn{bps: []int{laFirst}, site: "breakpoint", nth: 1, pre: "resume", rel: rel})
		add(gateScn{bps: []int{laInF}, site: "breakpoint", nth: 1, pre: "resume", rel: rel})
		add(gateScn{bps: []int{laInF}, site: "breakpoint", nth: 2, pre: "resume", rel: rel, via: true})
		add(gateScn{bps: []int{laInG, laInF}, site: "breakpoint", nth: 2, pre: "resume", rel: rel})
		add(gateScn{bps: []int{laAfter}, site: "breakpoint", nth: 1, pre: "resume", rel: rel})
		add(gateScn{bps: []int{laLoop}, site: "breakpoint", nth: 2, pre: "resume", rel: rel})
		add(gateScn{bps: []int{laEnd}, site: "breakpoint", nth: 1, pre: "resume", rel: rel})
		// break on start takes the breakpoint wait site as well
		add(gateScn{site: "breakpoint", nth: 1, pre: "resume", rel: rel, bos: true})
	}
	// step site: reached by stepping from a breakpoint
	for _, rel := range rels {
		for _, pre := range []string{"stepin", "stepover"} {
			add(gateScn{bps: []int{laFirst}, site: "step", nth: 1, pre: pre, rel: rel})
			add(gateScn{bps: []int{laCall}, site: "step", nth: 1, pre: pre, rel: rel})
			add(gateScn{bps: []int{laCall}, site: "step", nth: 3, pre: pre, rel: rel, via: true})
			add(gateScn{bps: []int{laInF}, site: "step", nth: 2, pre: pre, rel: rel})
		}
	}
	// error site: range() iterator protocol and raise, without and with an
	// interrogation state already present
	for _, rel := range rels {
		add(gateScn{site: "error", nth: 1, pre: "resume", rel: rel, boe: true})
		add(gateScn{site: "error", nth: 2, pre: "resume", rel: rel, boe: true})
		add(gateScn{site: "error", nth: 4, pre: "resume", rel: rel, boe: true})
		add(gateScn{bps: []int{laTry}, site: "error", nth: 1, pre: "stepover", rel: rel, boe: true})
		add(gateScn{bps: []int{laLoop}, site: "error", nth: 1, pre: "stepin", rel: rel, boe: true})
	}
	// sink worker threads
	for _, rel := range []string{"resume", "stepin", "stepover", "stepout"} {
		add(gateScn{sinkP: true, bps: []int{lsSink1}, site: "breakpoint", nth: 1, pre: "resume", rel: rel})
		add(gateScn{sinkP: true, bps: []int{lsInH}, site: "breakpoint", nth: 2, pre: "resume", rel: rel})
		add(gateScn{sinkP: true, bps: []int{lsSink2}, site: "step", nth: 1, pre: "stepin", rel: rel})
		add(gateScn{sinkP: true, site: "error", nth: 1, pre: "resume", rel: rel, boe: true})
	}
	// StopThreads with several threads: one held in the window, the others
	// really parked; and all really parked
	add(gateScn{bps: []int{laInF}, site: "breakpoint", nth: 1, pre: "resume", rel: "stopthreads", threads: 2})
	add(gateScn{bps: []int{laInF}, site: "breakpoint", nth: 3, pre: "resume", rel: "stopthreads", threads: 2})
	add(gateScn{bps: []int{laInF}, site: "breakpoint", nth: 1, pre: "resume", rel: "stopthreads", threads: 2, noGate: true})
	add(gateScn{bps: []int{laFirst}, site: "breakpoint", nth: 1, pre: "resume", rel: "stopthreads", threads: 3, noGate: true})
	add(gateScn{site: "error", nth: 1, pre: "resume", rel: "stopthreads", threads: 2, noGate: true, boe: true})
	return r
}

func runGate(c *core.Ctx, slot int, stream string, idx int, sc gateScn) {
	p := &prog{src: gateProgA, nlines: gateALen}
	if sc.sinkP {
		p = &prog{src: gateProgSink, nlines: gateSLen, sink: true, workers: 2, events: 2}
	}
	c.Begin(slot, stream, idx, sc.name+"\n"+p.src)
	defer c.End(slot)
	plain, why := runPlain(p)
	if why != "" {
		c.Inconclusive("gate scenario: "+why, stream, idx, sc.name)
		return
	}
	cfg := dcfg{bpMode: "subset", bps: sc.bps, breakOnStart: sc.bos, breakOnError: sc.boe,
		script: []string{sc.pre}, scriptName: sc.pre, viaInput: sc.via, timing: 3, maxSusp: 100000}
	s, err := newSession(c, p, cfg)
	if err != nil {
		c.Inconclusive("gate scenario: "+err.Error(), stream, idx, sc.name)
		return
	}
	s.stream, s.idx = stream, idx
	defer s.close()
	h := getHub()
	detail := func(extra map[string]interface{}) map[string]interface{} {
		d := map[string]interface{}{"scenario": sc.name, "program": p.src, "breakpoints": sc.bps,
			"gated_site": sc.site, "nth": sc.nth, "commands_before": sc.pre, "release": sc.rel}
		for k, v := range extra {
			d[k] = v
		}
		return d
	}
	reported := map[string]bool{}
	onStuck := func(si *stuckInfo) {
		k := stuckKey(si)
		c.Event("stuck."+si.site+"."+si.kind, 1)
		if reported[k] {
			return
		}
		reported[k] = true
		c.Violation(k, stuckWhat(si),
			stream, idx, detail(map[string]interface{}{"trace": si.trace, "goroutine": si.g}))
	}

	var gate *sched.Gate
	var armed int32 // set right before the releasing command is issued
	if !sc.noGate {
		gate = sched.NewGate("dbg.beforewait", "dbg.broadcast")
		n := 0
		gate.Match = func(a []interface{}) bool {
			if len(a) < 4 || a[0] != interface{}(s.inner) || a[3] != interface{}(sc.site) {
				return false
			}
			n++
			return n == sc.nth
		}
		// only a broadcast of the command issued after the hold opens the gate
		// (the dbg.broadcast event of the previous command may be recorded
		// after the woken thread has already reached the next wait site)
		gate.UntilMatch = func(a []interface{}) bool {
			return len(a) >= 2 && a[0] == interface{}(s.inner) && atomic.LoadInt32(&armed) == 1
		}
		s.gate = gate
		h.tr.AddGate(gate)
		defer h.tr.ClearGates()
	}
	until := []chan struct{}{s.x.done}
	s.x.start()
	for i := 0; i < sc.threads; i++ {
		s.x.startExtra()
	}
	until = append(until, s.x.extraDone...)

	if sc.noGate {
		// wait until every thread is really parked, then stop them all
		n := sc.threads + 1
		ok := false
		for i := 0; i < 2000 && !ok; i++ {
			cnt := 0
			for _, t := range s.status() {
				if t.known && !t.running {
					cnt++
				}
			}
			if cnt == n {
				ok = true
				for _, t := range s.status() {
					if !s.waitParked(t.tid) {
						ok = false
					}
				}
			} else {
				pause(100 * time.Microsecond)
			}
		}
		if !ok {
			c.Inconclusive("gate scenario: threads did not all suspend", stream, idx, sc.name)
			s.safe = false
			s.cfg.script = []string{"resume"}
			s.drive(until, nil)
			return
		}
		c.Event("stopthreads.all-parked", 1)
		s.stopThreads()
		v := s.drive(until, onStuck)
		s.finishGate(c, stream, idx, sc, v, detail, plain, true)
		return
	}

	// phase 1: run (continuing earlier suspensions with `pre`) until the gate holds
	held := false
	for i := 0; i < 40000; i++ {
		if gate.Holding() {
			held = true
			break
		}
		select {
		case <-s.x.done:
			i = 1 << 30
		default:
		}
		if s.step() == 0 {
			select {
			case <-s.m.wake:
			default:
				pause(100 * time.Microsecond)
			}
		}
	}
	if !held {
		gate.Release()
		c.Event("gate.infeasible", 1)
		c.Inconclusive("gate scenario: hold point never reached", stream, idx, detail(map[string]interface{}{"hooks": s.hookTail(300), "gate": fmt.Sprint(gate.HeldAt, gate.Released, gate.Forced, gate.WasHeld())}))
		s.gate = nil
		s.cfg.script = []string{"resume"}
		s.drive(until, onStuck)
		s.report(c)
		return
	}
	// the gated thread
	var gtid uint64
	for _, e := range s.m.hookSnapshot() {
		if e.seq == gate.HeldAt {
			gtid = e.tid
		}
	}
	rep := false
	depth := 0
	for _, t := range s.status() {
		if t.tid == gtid && t.known && !t.running {
			rep = true
			depth = t.callDepth
		}
	}
	if !rep {
		// premise of the property not met: the thread is not (yet) reported as
		// suspended at the hold point, so no continue can be addressed to it
		gate.Release()
		c.Event("gate.premise-not-met", 1)
		c.Inconclusive("gate scenario: thread held at dbg.beforewait is not reported as suspended", stream, idx, sc.name)
		s.gate = nil
		s.drive(until, onStuck)
		return
	}
	rel := sc.rel
	if rel == "stepout" && depth == 0 && !topLevelStepOutOK() {
		rel = "stepover" // candidate 24 (C16): no stepout at top level while it panics
	}
	if sc.threads > 0 {
		// the other threads must really be parked before StopThreads
		for _, t := range s.status() {
			if t.tid != gtid && t.known && !t.running {
				s.waitParked(t.tid)
			}
		}
	}
	atomic.StoreInt32(&armed, 1)
	if rel == "stopthreads" {
		s.stopThreads()
	} else {
		s.cont(gtid, rel)
	}
	feasible := !gate.Holding() && !gate.Forced
	if gate.Holding() {
		gate.Release()
	}
	s.gate = nil
	if !feasible {
		c.Event("gate.infeasible", 1)
		c.Inconclusive("gate scenario: the command did not broadcast", stream, idx, sc.name)
	} else {
		c.Event("gate.feasible", 1)
		c.Event("gate.site."+sc.site+"."+rel, 1)
		c.NontrivialKey("gate|" + sc.name)
	}
	if rel != "stopthreads" {
		s.cfg.script = []string{"resume"}
	}
	v := s.drive(until, onStuck)
	s.finishGate(c, stream, idx, sc, v, detail, plain, rel == "stopthreads")
}

func (s *session) stopThreads() {
	c0 := s.m.tr.Stamp()
	s.dbg.StopThreads(0)
	c1 := s.m.tr.Stamp()
	s.m.mu.Lock()
	s.m.stops = append(s.m.stops, contRec{0, "stopthreads", c0, c1, false})
	s.m.mu.Unlock()
	s.stopped = true
	s.stopAt = c1
}

func (s *session) finishGate(c *core.Ctx, stream string, idx int, sc gateScn, v string,
	detail func(map[string]interface{}) map[string]interface{}, plain outcome, killed bool) {
	s.report(c)
	switch v {
	case "done":
		c.Event("gate.done", 1)
		if !killed && len(s.stucks) == 0 {
			out := s.x.collect()
			if k, d := diffOutcome(plain, out); k != "" {
				c.Violation(k, "debugged run of a gate scenario differs from the plain run", stream, idx, detail(map[string]interface{}{"diff": d}))
			}
		}
	case "stuck":
		c.Event("gate.stuck-leaked", 1)
	default:
		c.Inconclusive("gate scenario: neither finished nor stuck", stream, idx, detail(map[string]interface{}{"hooks": s.hookTail(30), "goroutines": trunc(sched.FullDump(), 6000)}))
	}
}
