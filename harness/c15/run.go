package c15

import (
	"fmt"
	"runtime"
	"runtime/debug"
	"sort"
	"strings"
	"sync"
	"sync/atomic"
	"time"

	"github.com/krotik/ecal/engine"
	"github.com/krotik/ecal/interpreter"
	"github.com/krotik/ecal/parser"
	"github.com/krotik/ecal/scope"
	"github.com/krotik/ecal/util"

	"verif/harness/core"
	"verif/harness/sched"
)

const srcName = "c15src"

// parseMu serialises parsing inside this process: the parser of the tree
// under test keeps package-level state (owned by C13); the programs used here
// never parse at evaluation time (no interpolation, no imports).
var parseMu sync.Mutex

// outcome is what oracle (1) compares.
type outcome struct {
	finished bool // the evaluation returned (false: killed by StopThreads or still parked)
	res      string
	err      string
	logs     []string
	scope    string
	panicked string
}

// execution is one run (plain or debugged) of a program.
type execution struct {
	p      *prog
	erp    *interpreter.ECALRuntimeProvider
	vs     parser.Scope
	logger *util.MemoryLogger
	ast    *parser.ASTNode
	tid    uint64
	done   chan struct{}
	mu     sync.Mutex
	out    outcome
	// extra threads evaluating the same tree (StopThreads scenarios)
	extraDone []chan struct{}
}

func prepare(p *prog) (*execution, error) {
	x := &execution{p: p, done: make(chan struct{})}
	x.logger = util.NewMemoryLogger(3000)
	x.erp = interpreter.NewECALRuntimeProvider("c15", &util.MemoryImportLocator{Files: map[string]string{}}, x.logger)
	if p.sink {
		proc := engine.NewProcessor(p.workers)
		proc.SetFailOnFirstErrorInTriggerSequence(true)
		x.erp.Processor = proc
	}
	x.vs = scope.NewScope(scope.GlobalScope)
	parseMu.Lock()
	ast, err := parser.ParseWithRuntime(srcName, p.src, x.erp)
	if err == nil {
		err = ast.Runtime.Validate()
	}
	parseMu.Unlock()
	if err != nil {
		go x.erp.Cron.Stop()
		return nil, err
	}
	x.ast = ast
	// a debugged thread is not always among the first threads of a host:
	// every other execution draws its ids where a longer-running host would
	// be (ids are handed out by counting up)
	if burn := []int{0, 0, 0, 0, 255, 996, 997, 998, 999, 1023, 4095, 65534}[core.Hash64(p.src)%12]; burn > 0 {
		for i := 0; i < burn; i++ {
			x.erp.NewThreadID()
		}
	}
	x.tid = x.erp.NewThreadID()
	return x, nil
}

// start evaluates the program on a new goroutine (the "debugged thread").
func (x *execution) start() {
	go func() {
		defer close(x.done)
		defer func() {
			if r := recover(); r != nil {
				x.mu.Lock()
				x.out.panicked = core.PanicKey(r, debug.Stack())
				x.mu.Unlock()
			}
		}()
		res, err := x.ast.Runtime.Eval(x.vs, make(map[string]interface{}), x.tid)
		if x.erp.Debugger != nil {
			x.erp.Debugger.RecordThreadFinished(x.tid)
		}
		if x.p.sink {
			// quiescence first (running sinks may still add cascade events,
			// which a stopping processor refuses), then stop the workers
			x.erp.Processor.ThreadPool().WaitAll()
			x.erp.Processor.Finish()
		}
		x.mu.Lock()
		x.out.finished = true
		x.out.res = fmt.Sprintf("%v", res)
		if err != nil {
			x.out.err = err.Error()
		}
		x.mu.Unlock()
	}()
}

// startExtra evaluates the same tree on one more thread with its own scope.
func (x *execution) startExtra() uint64 {
	tid := x.erp.NewThreadID()
	d := make(chan struct{})
	x.extraDone = append(x.extraDone, d)
	vs := scope.NewScope(scope.GlobalScope)
	go func() {
		defer close(d)
		defer func() { recover() }()
		x.ast.Runtime.Eval(vs, make(map[string]interface{}), tid)
		if x.erp.Debugger != nil {
			x.erp.Debugger.RecordThreadFinished(tid)
		}
	}()
	return tid
}

func (x *execution) collect() outcome {
	x.mu.Lock()
	o := x.out
	x.mu.Unlock()
	o.logs = x.logger.Slice()
	if x.p.sink {
		sort.Strings(o.logs)
	}
	o.scope = x.vs.String()
	return o
}

func (x *execution) close() {
	// never synchronously: Cron.Stop of krotik/common can deadlock with the
	// cron goroutine's tick (dependency defect outside every property)
	go x.erp.Cron.Stop()
}

// runPlain runs without a debugger. The wait is bounded only to stop waiting
// (a plain run that does not come back is reported as inconclusive).
func runPlain(p *prog) (outcome, string) {
	x, err := prepare(p)
	if err != nil {
		return outcome{}, "parse: " + err.Error()
	}
	defer x.close()
	x.start()
	select {
	case <-x.done:
	case <-time.After(20 * time.Second):
		return outcome{}, "plain run did not return"
	}
	return x.collect(), ""
}

// ---------------------------------------------------------------------------
// debugged run

type dcfg struct {
	bpMode       string // none | all | subset | dynamic
	bps          []int
	disabled     []int // set and disabled again before the start
	breakOnStart bool
	breakOnError bool
	script       []string // cyclic command script per thread
	scriptName   string
	viaInput     bool // cont / break commands through HandleInput
	timing       int  // 0 immediate, 1 settle, 2 seeded delay, 3 safe (wait for the parked state)
	dynSeed      uint64
	dynRate      int // dynamic: chance x/16 of a breakpoint operation per driver step
	maxSusp      int // after that many continues the driver drains (removes breakpoints, resumes only)
}

func (d dcfg) String() string {
	return fmt.Sprintf("bp=%s%v dis=%v bos=%v boe=%v script=%s via=%v timing=%d", d.bpMode, d.bps, d.disabled,
		d.breakOnStart, d.breakOnError, d.scriptName, d.viaInput, d.timing)
}

type stuckInfo struct {
	tid   uint64
	g     uint64
	site  string
	line  int
	kind  string // continue | stopthreads | none: the command that should have released it
	cmd   string
	cmdAt int64
	bkind string // kind of the last broadcast event addressed to the thread ("" = none)
	class string // A lost wake-up | B command without effect
	l, k  int64  // seq of beforewait, seq of the last broadcast addressed to the thread
	trace []string
}

type session struct {
	c     *core.Ctx
	x     *execution
	m     *caseMon
	inner util.ECALDebugger
	dbg   *traceDbg
	cfg   dcfg
	dyn   *core.Rand

	nconts     int64
	perThread  map[uint64]int
	stucks     []stuckInfo
	safe       bool // wait for the parked state before every continue
	drain      bool
	contPanics int
	lastBpLine int
	cmdCount   map[string]int
	rescued    int
	leaked     bool
	gate       *sched.Gate // armed / holding gate of a directed scenario
	stopped    bool
	stopAt     int64 // clock value when StopThreads returned

	stream       string
	idx          int
	deadReported bool

	zombieReported bool
}

func newSession(c *core.Ctx, p *prog, cfg dcfg) (*session, error) {
	x, err := prepare(p)
	if err != nil {
		return nil, err
	}
	h := getHub()
	s := &session{c: c, x: x, cfg: cfg, perThread: map[uint64]int{}, cmdCount: map[string]int{}}
	s.m = newCaseMon(h.tr)
	s.inner = interpreter.NewECALDebugger(x.vs)
	s.dbg = &traceDbg{inner: s.inner, m: s.m}
	h.cases.Store(interface{}(s.inner), s.m)
	x.erp.Debugger = s.dbg
	s.dyn = core.NewRand(cfg.dynSeed)
	s.safe = cfg.timing == 3
	// configuration before the start
	if !cfg.breakOnError {
		s.dbg.BreakOnError(false)
	}
	if cfg.breakOnStart {
		if cfg.viaInput {
			s.dbg.HandleInput("breakonstart true")
		} else {
			s.dbg.BreakOnStart(true)
		}
	}
	for _, l := range cfg.bps {
		s.bpOp("set", l)
	}
	for _, l := range cfg.disabled {
		s.bpOp("set", l)
		s.bpOp("disable", l)
	}
	return s, nil
}

func (s *session) close() {
	getHub().cases.Delete(interface{}(s.inner))
	s.x.close()
}

// bpOp applies and records one breakpoint operation.
func (s *session) bpOp(kind string, line int) {
	c0 := s.m.tr.Stamp()
	switch kind {
	case "set":
		if s.cfg.viaInput {
			s.dbg.HandleInput(fmt.Sprintf("break %s:%d", srcName, line))
		} else {
			s.dbg.SetBreakPoint(srcName, line)
		}
	case "disable":
		if s.cfg.viaInput {
			s.dbg.HandleInput(fmt.Sprintf("disablebreak %s:%d", srcName, line))
		} else {
			s.dbg.DisableBreakPoint(srcName, line)
		}
	case "remove":
		if s.cfg.viaInput {
			s.dbg.HandleInput(fmt.Sprintf("rmbreak %s:%d", srcName, line))
		} else {
			s.dbg.RemoveBreakPoint(srcName, line)
		}
	case "removeall":
		if s.cfg.viaInput {
			s.dbg.HandleInput("rmbreak " + srcName)
		} else {
			s.dbg.RemoveBreakPoint(srcName, -1)
		}
	}
	c1 := s.m.tr.Stamp()
	s.m.mu.Lock()
	s.m.bpops = append(s.m.bpops, bpOp{kind, line, c0, c1})
	s.m.mu.Unlock()
	s.c.Event("bp."+kind, 1)
}

var contTypes = map[string]util.ContType{"resume": util.Resume, "stepin": util.StepIn, "stepover": util.StepOver, "stepout": util.StepOut}

// cont issues one continue command and records it on the logical clock.
func (s *session) cont(tid uint64, cmd string) {
	c0 := s.m.tr.Stamp()
	_, _, panicked := core.Guard(func() {
		if s.cfg.viaInput {
			s.dbg.HandleInput(fmt.Sprintf("cont %d %s", tid, cmd))
		} else {
			s.dbg.Continue(tid, contTypes[cmd])
		}
	})
	c1 := s.m.tr.Stamp()
	if panicked {
		// `stepout` with an empty call stack (candidate 24, owned by C16): the
		// thread was reported inside a call and left it before the command
		s.contPanics++
	}
	s.m.mu.Lock()
	s.m.conts = append(s.m.conts, contRec{tid, cmd, c0, c1, panicked})
	s.m.mu.Unlock()
	atomic.AddInt64(&s.nconts, 1)
	s.cmdCount[cmd]++
}

type threadStatus struct {
	tid       uint64
	known     bool // has an interrogation state
	running   bool
	callDepth int
}

func (s *session) status() []threadStatus {
	var res []threadStatus
	st, ok := s.dbg.Status().(map[string]interface{})
	if !ok {
		return nil
	}
	threads, ok := st["threads"].(map[string]map[string]interface{})
	if !ok {
		return nil
	}
	for k, info := range threads {
		var t threadStatus
		fmt.Sscanf(k, "%d", &t.tid)
		if r, ok := info["threadRunning"].(bool); ok {
			t.known = true
			t.running = r
		} else {
			t.running = true
		}
		if cs, ok := info["callStack"].([]string); ok {
			t.callDepth = len(cs)
		}
		res = append(res, t)
	}
	sort.Slice(res, func(i, j int) bool { return res[i].tid < res[j].tid })
	return res
}

// lastWait returns the last beforewait/resumed event of a thread.
func lastWait(hs []hookEv, tid uint64) (hookEv, bool) {
	for i := len(hs) - 1; i >= 0; i-- {
		if hs[i].tid == tid && (hs[i].point == "dbg.beforewait" || hs[i].point == "dbg.resumed") {
			return hs[i], true
		}
	}
	return hookEv{}, false
}

// waitParked polls (bounded) until the goroutine of a suspended thread is in
// scheduler state sync.Cond.Wait. Only used to set scenarios up.
func (s *session) waitParked(tid uint64) bool {
	for i := 0; i < 400; i++ {
		if h, ok := lastWait(s.m.hookSnapshot(), tid); ok && h.point == "dbg.beforewait" {
			if s.gated(h) {
				return false
			}
			if sched.GoStates()[h.g] == "sync.Cond.Wait" {
				return true
			}
		}
		pause(50 * time.Microsecond)
	}
	return false
}

var (
	topStepOutOnce sync.Once
	topStepOutOK   bool
)

// topLevelStepOutOK probes once per process whether `stepout` for a thread
// suspended outside any call still panics (candidate 24, owned by C16).
func topLevelStepOutOK() bool {
	topStepOutOnce.Do(func() {
		p := &prog{src: "a := 1\nb := 2\n", nlines: 2}
		x, err := prepare(p)
		if err != nil {
			return
		}
		defer x.close()
		dbg := interpreter.NewECALDebugger(x.vs)
		dbg.SetBreakPoint(srcName, 1)
		x.erp.Debugger = dbg
		x.start()
		suspended := false
		for i := 0; i < 20000 && !suspended; i++ {
			if st, ok := dbg.Status().(map[string]interface{}); ok {
				if th, ok := st["threads"].(map[string]map[string]interface{}); ok {
					if r, ok := th[fmt.Sprint(x.tid)]["threadRunning"].(bool); ok && !r {
						suspended = true
					}
				}
			}
			pause(100 * time.Microsecond)
		}
		if !suspended {
			return
		}
		pause(2 * time.Millisecond) // let it reach the wait (set-up only)
		_, _, panicked := core.Guard(func() { dbg.Continue(x.tid, util.StepOut) })
		topStepOutOK = !panicked
		// let the probe thread finish whatever happened
		for i := 0; i < 20000; i++ {
			select {
			case <-x.done:
				return
			default:
			}
			core.Guard(func() { dbg.Continue(x.tid, util.Resume) })
			pause(200 * time.Microsecond)
		}
	})
	return topStepOutOK
}

// gated tells whether the wait event h is the one held by the scenario's gate.
func (s *session) gated(h hookEv) bool {
	return s.gate != nil && s.gate.Holding() && s.gate.HeldAt == h.seq
}

// step looks at Status() once and issues the next script command to every
// thread reported as suspended. Returns the number of commands issued.
func (s *session) step() int {
	n := 0
	for _, t := range s.status() {
		if !t.known || t.running {
			continue
		}
		if s.stopped {
			// a thread that was suspended when StopThreads was called must come
			// back by itself; only suspensions that began afterwards get commands
			if h, ok := lastWait(s.m.hookSnapshot(), t.tid); !ok || h.point != "dbg.beforewait" || h.seq < s.stopAt {
				continue
			}
		}
		switch {
		case s.safe:
			if !s.waitParked(t.tid) && s.gate != nil {
				if h, ok := lastWait(s.m.hookSnapshot(), t.tid); ok && s.gated(h) {
					continue // the scenario handles the held thread itself
				}
			}
		case s.cfg.timing == 1:
			pause(60 * time.Microsecond)
		case s.cfg.timing == 4:
			pause(150 * time.Microsecond)
		case s.cfg.timing == 2:
			pause(time.Duration(s.dyn.Intn(250)) * time.Microsecond)
		}
		if s.cfg.bpMode == "dynamic" && !s.drain && s.dyn.Intn(16) < s.cfg.dynRate {
			line := 1 + s.dyn.Intn(s.x.p.nlines)
			switch s.dyn.Intn(8) {
			case 0, 1, 2:
				s.bpOp("set", line)
				s.lastBpLine = line
			case 3, 4:
				if s.lastBpLine > 0 && s.dyn.Bool() {
					line = s.lastBpLine
				}
				s.bpOp("disable", line)
			case 5, 6:
				if s.lastBpLine > 0 && s.dyn.Bool() {
					line = s.lastBpLine
				}
				s.bpOp("remove", line)
			default:
				s.bpOp("removeall", 0)
			}
		}
		k := s.perThread[t.tid]
		s.perThread[t.tid] = k + 1
		cmd := s.cfg.script[k%len(s.cfg.script)]
		if s.drain {
			cmd = "resume"
		}
		if cmd == "stepout" && t.callDepth == 0 && !topLevelStepOutOK() {
			// candidate 24: stepout at top level panics (C16 owns that); as
			// long as a probe sees the panic it is issued only inside a call
			cmd = "stepover"
		}
		s.cont(t.tid, cmd)
		n++
		if !s.drain && int(atomic.LoadInt64(&s.nconts)) >= s.cfg.maxSusp {
			s.drain = true
			s.bpOp("removeall", 0)
		}
	}
	return n
}

// findStuck evaluates the stuck predicates. All of them are statements about
// a state that no enabled action can leave, none is a stopwatch:
//
// common part: the thread's last wait event is dbg.beforewait at position l
// (no dbg.resumed after it), its goroutine is parked in sync.Cond.Wait, no
// command is in flight (all commands are issued by the calling goroutine and
// have returned) and the trace did not move while the goroutine states were
// read.
//
//	(A) lost wake-up: Status() does not report the thread as suspended, so a
//	    further `cont` / StopThreads is a no-op and nothing will ever broadcast
//	    again. sync.Cond readies every registered waiter before Broadcast
//	    returns, hence a goroutine still parked took its wait ticket after the
//	    last broadcast. The command that was lost is the last one addressed to
//	    the thread since its previous release (the suspended mark precedes the
//	    hook, so the command may lie before or after l).
//	(B) no effect: Status() still reports the thread as suspended although a
//	    command addressed to it (or StopThreads) was issued after l and has
//	    returned: "the next continue command" did not release it.
func (s *session) findStuck() *stuckInfo {
	hs := s.m.hookSnapshot()
	s.m.mu.Lock()
	conts := append([]contRec(nil), s.m.conts...)
	stops := append([]contRec(nil), s.m.stops...)
	s.m.mu.Unlock()
	seen := map[uint64]bool{}
	var cands []stuckInfo
	for i := len(hs) - 1; i >= 0; i-- {
		h := hs[i]
		if h.point != "dbg.beforewait" && h.point != "dbg.resumed" {
			continue
		}
		if seen[h.tid] {
			continue
		}
		seen[h.tid] = true
		if h.point != "dbg.beforewait" {
			continue
		}
		si := stuckInfo{tid: h.tid, g: h.g, site: h.site, line: h.line, l: h.seq}
		// previous release of this thread
		var prev int64
		for j := i - 1; j >= 0; j-- {
			if hs[j].tid == h.tid && hs[j].point == "dbg.resumed" {
				prev = hs[j].seq
				break
			}
		}
		for _, b := range hs {
			if b.seq > prev && b.point == "dbg.broadcast" && (b.kind == "stopthreads" || b.tid == h.tid) {
				si.k = b.seq
				si.bkind = b.kind
			}
		}
		for _, c := range conts {
			if c.tid == h.tid && c.c0 > prev && !c.panicked {
				si.kind, si.cmd, si.cmdAt = "continue", c.cmd, c.c0
			}
		}
		for _, c := range stops {
			if c.c0 > prev && c.c0 > si.cmdAt {
				si.kind, si.cmd, si.cmdAt = "stopthreads", "stopthreads", c.c0
			}
		}
		cands = append(cands, si)
	}
	if len(cands) == 0 {
		return nil
	}
	reported := map[uint64]bool{}
	for _, t := range s.status() {
		if t.known && !t.running {
			reported[t.tid] = true
		}
	}
	var gs map[uint64]string
	for _, si := range cands {
		switch {
		case !reported[si.tid]:
			si.class = "A"
			if si.kind == "" {
				si.kind = "none"
			}
		case si.cmdAt > si.l:
			si.class = "B"
		default:
			continue // suspended and waiting for a command: not stuck
		}
		if s.gate != nil && s.gate.Holding() && s.gate.HeldAt == si.l {
			continue // held by the harness
		}
		if gs == nil {
			gs = sched.GoStates()
		}
		if gs[si.g] != "sync.Cond.Wait" {
			continue
		}
		// re-check: nothing happened for this thread meanwhile
		hs2 := s.m.hookSnapshot()
		h2, _ := lastWait(hs2, si.tid)
		moved := h2.seq != si.l
		for _, b := range hs2 {
			if b.seq > si.k && b.seq > si.l && b.point == "dbg.broadcast" && (b.kind == "stopthreads" || b.tid == si.tid) {
				moved = true
			}
		}
		if moved {
			continue
		}
		from := 0
		for j, e := range hs2 {
			if e.seq == si.l {
				from = j
			}
		}
		if from > 4 {
			from -= 4
		} else {
			from = 0
		}
		for _, e := range hs2[from:] {
			si.trace = append(si.trace, fmt.Sprintf("%d g%d %s tid=%d line=%d %s%s", e.seq, e.g, e.point, e.tid, e.line, e.site, e.kind))
		}
		si.trace = append(si.trace, fmt.Sprintf("last command addressed to the thread: %s at %d; Status() reports suspended=%v; goroutine %d in sync.Cond.Wait", si.cmd, si.cmdAt, reported[si.tid], si.g))
		r := si
		return &r
	}
	return nil
}

// reportDead files the verdict on a debugger command that did not return.
func (s *session) reportDead() {
	if s.deadReported {
		return
	}
	s.deadReported = true
	d := map[string]interface{}{"program": s.x.p.src, "command": s.dbg.deadCmd, "hooks": s.hookTail(30)}
	if s.dbg.witness == "" {
		s.c.Inconclusive("a debugger command did not return and no witness was found", s.stream, s.idx, d)
		return
	}
	d["goroutines"] = trunc(s.dbg.witness, 6000)
	s.c.Event("violation.dbg-lock-held-for-good", 1)
	s.c.Violation("dbg-lock:held-for-good", "a debugger command never returns: it is parked on the debugger's lock and every goroutine inside the debugger is parked too, so the suspended threads can never be resumed", s.stream, s.idx, d)
}

// stopZombie finds a thread that StopThreads released and that parked again
// before it ended, with no command issued since: the broadcast of the stop
// reached it (dbg.resumed after the stopthreads broadcast), its last hook event
// is a later dbg.beforewait, no continue / stop command started after that
// wait began, and the scheduler reports its goroutine in sync.Cond.Wait. The
// stop was the last thing anybody intended to tell this thread, so it stays
// where it is ("stopping all threads releases every suspended one" - and the
// release must not be undone by the thread's own termination).
func (s *session) stopZombie() *stuckInfo {
	if !s.stopped {
		return nil
	}
	hs := s.m.hookSnapshot()
	var stopSeq int64 = -1
	for _, h := range hs {
		if h.point == "dbg.broadcast" && h.kind == "stopthreads" {
			stopSeq = h.seq
		}
	}
	if stopSeq < 0 {
		return nil
	}
	s.m.mu.Lock()
	conts := append([]contRec(nil), s.m.conts...)
	stops := append([]contRec(nil), s.m.stops...)
	s.m.mu.Unlock()
	released := map[uint64]bool{}
	for _, h := range hs {
		if h.seq > stopSeq && h.point == "dbg.resumed" {
			released[h.tid] = true
		}
	}
	for tid := range released {
		h, ok := lastWait(hs, tid)
		if !ok || h.point != "dbg.beforewait" || h.seq < stopSeq {
			continue
		}
		later := false
		for _, c := range conts {
			if c.tid == tid && c.c0 > h.seq {
				later = true
			}
		}
		for _, c := range stops {
			if c.c0 > h.seq {
				later = true
			}
		}
		if later || sched.GoStates()[h.g] != "sync.Cond.Wait" {
			continue
		}
		if h2, _ := lastWait(s.m.hookSnapshot(), tid); h2.seq != h.seq {
			continue
		}
		si := &stuckInfo{tid: tid, g: h.g, site: h.site, line: h.line, l: h.seq, kind: "stopthreads", cmd: "stopthreads", class: "C"}
		for _, e := range hs {
			if e.seq >= stopSeq-6 {
				si.trace = append(si.trace, fmt.Sprintf("%d g%d %s tid=%d line=%d %s%s", e.seq, e.g, e.point, e.tid, e.line, e.site, e.kind))
			}
		}
		return si
	}
	return nil
}

func (s *session) progress() int64 {
	return atomic.LoadInt64(&s.m.nvisits) + atomic.LoadInt64(&s.m.nhooks)
}

// drive keeps resuming until every channel in `until` is closed. Returns
// "done", "stuck" (a stuck thread could not be woken by the clean-up) or
// "inconclusive".
func (s *session) drive(until []chan struct{}, onStuck func(si *stuckInfo)) string {
	poll := 300 * time.Microsecond
	timer := time.NewTimer(poll)
	defer timer.Stop()
	last := s.progress()
	lastT := time.Now()
	const lookFirst = 400 * time.Microsecond
	look := lookFirst
	for {
		if atomic.LoadInt32(&s.dbg.dead) == 1 {
			s.reportDead()
			s.leaked = true
			return "stuck"
		}
		alldone := true
		for _, d := range until {
			select {
			case <-d:
			default:
				alldone = false
			}
		}
		if alldone {
			return "done"
		}
		if !timer.Stop() {
			select {
			case <-timer.C:
			default:
			}
		}
		timer.Reset(poll)
		select {
		case <-until[0]:
		case <-s.m.wake:
		case <-timer.C:
		}
		s.step()
		if p := s.progress(); p != last {
			last = p
			lastT = time.Now()
			look = lookFirst
			continue
		}
		idle := time.Since(lastT)
		if idle >= look && !s.zombieReported {
			if z := s.stopZombie(); z != nil {
				s.zombieReported = true
				s.stucks = append(s.stucks, *z)
				s.c.Event("stuck.resuspended-after-stopthreads."+z.site, 1)
				s.c.Violation("stop:resuspended-after-stopthreads:"+z.site, fmt.Sprintf("StopThreads released thread %d, but the thread suspended again (site %s, line %d) before it ended and no command is left to wake it: it stays suspended for good", z.tid, z.site, z.line), s.stream, s.idx,
					map[string]interface{}{"program": s.x.p.src, "config": s.cfg.String(), "hooks": z.trace})
				// outside help so that the case can be torn down
				s.stopThreads()
				lastT = time.Now()
				look = lookFirst
				continue
			}
		}
		if idle >= look {
			look *= 2 // back off: looking is expensive (full goroutine dump)
			if si := s.findStuck(); si != nil {
				s.stucks = append(s.stucks, *si)
				if onStuck != nil {
					onStuck(si)
				}
				if si.class == "A" && rescueBroadcast(s.inner, si.tid) {
					s.rescued++
					if s.gate == nil && s.cfg.timing != 3 {
						s.cfg.timing = 4 // one verdict per case is enough: let the threads settle from here on
					} else {
						s.safe = true
					}
					lastT = time.Now()
					look = lookFirst
					continue
				}
				s.leaked = true
				return "stuck"
			}
		}
		if idle > 8*time.Second {
			s.leaked = true
			return "inconclusive"
		}
	}
}

func stuckKey(si *stuckInfo) string {
	switch {
	case si.class == "B":
		return fmt.Sprintf("stuck:no-effect:%s@%s", si.cmd, si.site)
	case si.kind == "none":
		return fmt.Sprintf("stuck:dbg.beforewait(%s)->never-reported-suspended", si.site)
	case si.bkind == "":
		return fmt.Sprintf("stuck:dbg.beforewait(%s)->no-broadcast(%s)", si.site, si.kind)
	}
	return fmt.Sprintf("stuck:dbg.beforewait(%s)->dbg.broadcast(%s)", si.site, si.kind)
}

func stuckWhat(si *stuckInfo) string {
	if si.class == "B" {
		return fmt.Sprintf("thread %d is suspended at wait site %q (line %d) and reported as suspended; the command %q addressed to it returned without releasing it: it is still parked in sync.Cond.Wait and still reported suspended", si.tid, si.site, si.line, si.cmd)
	}
	return fmt.Sprintf("lost wake-up: thread %d marked itself suspended at wait site %q (line %d); the %s command addressed to it (%s) was delivered before it waited; it is parked in sync.Cond.Wait while Status() reports it running, so no further command can release it", si.tid, si.site, si.line, si.kind, si.cmd)
}

// ---------------------------------------------------------------------------
// oracle (2): arrivals that must suspend

type bpMiss struct {
	a        arrival
	lastCmd  string
	inFlight bool     // a command addressed to the thread overlapped the visit
	phantom  bool     // the last command acted on the thread while it was running
	context  []string // merged trace around the visit
}

type bpResult struct {
	must, matched, ambiguous, wrongLine int
	misses                              []bpMiss
}

func (s *session) checkBreakpoints() bpResult {
	var r bpResult
	s.m.mu.Lock()
	arr := append([]arrival(nil), s.m.arrivals...)
	ops := append([]bpOp(nil), s.m.bpops...)
	conts := append([]contRec(nil), s.m.conts...)
	s.m.mu.Unlock()
	hs := s.m.hookSnapshot()
	const inf = int64(1) << 62
	for _, a := range arr {
		end := a.v1
		if end == 0 {
			end = inf
		}
		active := false
		ambiguous := false
		for _, o := range ops {
			touches := o.kind == "removeall" || o.line == a.line
			if !touches {
				continue
			}
			if o.c1 < a.v0 {
				active = o.kind == "set"
			} else if o.c0 < end {
				ambiguous = true
			}
		}
		if !active {
			continue
		}
		if ambiguous {
			r.ambiguous++
			continue
		}
		r.must++
		found := false
		for _, h := range hs {
			if h.point == "dbg.beforewait" && h.tid == a.tid && h.seq > a.v0 && h.seq < end {
				found = true
				if h.line != a.line {
					r.wrongLine++
				}
				break
			}
		}
		if found {
			r.matched++
			continue
		}
		if a.v1 == 0 {
			continue // the visit never returned (thread killed or abandoned): no verdict
		}
		last := "none"
		inFlight := false
		phantom := false
		for _, c := range conts {
			if c.tid != a.tid {
				continue
			}
			if c.c0 > a.v0 {
				if c.c0 < end {
					inFlight = true // issued while the visit was going on
				}
				continue
			}
			acted, released := false, false
			for _, h := range hs {
				if h.tid != a.tid {
					continue
				}
				// the hook sits inside Continue: it fires iff the command acted
				if h.point == "dbg.broadcast" && h.seq > c.c0 && h.seq < c.c1 {
					acted = true
				}
				// the thread was released after the command was issued and
				// before the visit: the command had been delivered
				if h.point == "dbg.resumed" && h.seq > c.c0 && h.seq < a.v0 {
					released = true
				}
			}
			switch {
			case released:
				last, inFlight, phantom = c.cmd, false, false
			case c.c1 < a.v0 && acted:
				// the command changed the state of a thread that was not
				// waiting (it was reported suspended while it ran)
				last, inFlight, phantom = c.cmd, false, true
			case c.c1 < a.v0:
				// no effect (thread not reported suspended at that moment)
			default:
				inFlight = true
			}
		}
		var ctx []string
		lo, hi := a.v0-60, a.v0+30
		for _, h := range hs {
			if h.seq >= lo && h.seq <= hi {
				ctx = append(ctx, fmt.Sprintf("%06d hook g%d %s tid=%d line=%d %s%s", h.seq, h.g, h.point, h.tid, h.line, h.site, h.kind))
			}
		}
		for _, c := range conts {
			if c.c1 >= lo && c.c0 <= hi {
				ctx = append(ctx, fmt.Sprintf("%06d cont tid=%d %s returns at %d", c.c0, c.tid, c.cmd, c.c1))
			}
		}
		for _, b := range arr {
			if b.v0 >= lo && b.v0 <= hi {
				ctx = append(ctx, fmt.Sprintf("%06d arrive tid=%d line=%d returns at %d", b.v0, b.tid, b.line, b.v1))
			}
		}
		for _, o := range ops {
			if o.c1 >= lo && o.c0 <= hi {
				ctx = append(ctx, fmt.Sprintf("%06d bp %s line=%d returns at %d", o.c0, o.kind, o.line, o.c1))
			}
		}
		sort.Strings(ctx)
		r.misses = append(r.misses, bpMiss{a, last, inFlight, phantom, ctx})
	}
	return r
}

func bpMissKey(m bpMiss) string {
	if m.inFlight {
		return "bp.ambiguous(command in flight)"
	}
	if m.phantom {
		return "bpmiss:command-acted-on-running-thread"
	}
	switch m.lastCmd {
	case "stepover", "stepout":
		return "bpmiss:during-" + m.lastCmd
	}
	return "bpmiss:after-" + m.lastCmd
}

// ---------------------------------------------------------------------------

func diffOutcome(plain, dbg outcome) (string, string) {
	if plain.panicked != dbg.panicked {
		return "transp:panic", fmt.Sprintf("plain %q debugged %q", plain.panicked, dbg.panicked)
	}
	if plain.finished != dbg.finished {
		return "transp:thread-ended-early", fmt.Sprintf("plain run returned=%v, debugged run returned=%v (evaluation goroutine ended without returning)", plain.finished, dbg.finished)
	}
	if plain.res != dbg.res {
		return "transp:result", fmt.Sprintf("plain %q debugged %q", plain.res, dbg.res)
	}
	if plain.err != dbg.err {
		return "transp:error", fmt.Sprintf("plain %q debugged %q", plain.err, dbg.err)
	}
	if strings.Join(plain.logs, "\n") != strings.Join(dbg.logs, "\n") {
		return "transp:log", fmt.Sprintf("plain:\n%s\ndebugged:\n%s", trunc(strings.Join(plain.logs, "\n"), 1500), trunc(strings.Join(dbg.logs, "\n"), 1500))
	}
	if plain.scope != dbg.scope {
		return "transp:scope", fmt.Sprintf("plain:\n%s\ndebugged:\n%s", trunc(plain.scope, 1500), trunc(dbg.scope, 1500))
	}
	return "", ""
}

// pause waits for a short while by yielding: timers on the test machines have
// a granularity of milliseconds, far too coarse for the windows of interest.
// It never decides anything.
func pause(d time.Duration) {
	end := time.Now().Add(d)
	for time.Now().Before(end) {
		runtime.Gosched()
	}
}

func trunc(s string, n int) string {
	if len(s) > n {
		return s[:n] + "..."
	}
	return s
}
