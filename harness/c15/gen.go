package c15

import (
	"fmt"
	"strings"

	"verif/harness/core"
)

// prog is one generated ECAL program. Every statement sits on its own line so
// that line numbers are meaningful breakpoint targets.
type prog struct {
	src     string
	nlines  int
	sink    bool // uses sinks (several threads)
	workers int  // pool size for sink programs
	events  int  // events fired by a sink program
}

type fdef struct {
	name   string
	params int
	raises bool
}

// pgen is a compact generator of deterministic, terminating, well-typed ECAL
// programs: assignments, arithmetic, if / loops / range, functions with nested
// calls, try / except with raise, log calls, lists and maps. It never emits a
// construct of the known crash list (modulo by zero, list comparison, negative
// index, del / add out of bounds, argument-less raise) – those belong to C06 –
// and nothing whose outcome depends on time, randomness or address values.
type pgen struct {
	r      *core.Rand
	lines  []string
	funcs  []fdef
	uid    int
	budget int // static statement budget
	// context
	params   []string // names readable inside the current function
	locals   []string // let-locals readable in the current function
	loopVars []string // numeric loop variables in scope
	inFunc   bool
	inLoop   int
	inTry    int
}

func (g *pgen) emit(ind int, s string) {
	g.lines = append(g.lines, strings.Repeat("    ", ind)+s)
}

func (g *pgen) fresh(p string) string {
	g.uid++
	return fmt.Sprintf("%s%d", p, g.uid)
}

var numVars = []string{"v0", "v1", "v2", "v3"}

func (g *pgen) atom() string {
	r := g.r
	var pool []string
	pool = append(pool, numVars...)
	pool = append(pool, g.params...)
	pool = append(pool, g.locals...)
	pool = append(pool, g.loopVars...)
	switch r.Intn(10) {
	case 0, 1, 2:
		return fmt.Sprint(r.Intn(10))
	case 3:
		return "len(l0)"
	case 4:
		if r.Bool() {
			return "l1[" + fmt.Sprint(r.Intn(2)) + "]"
		}
		return "m0.a"
	case 5:
		return "l0[" + fmt.Sprint(r.Intn(3)) + "]"
	default:
		return pool[r.Intn(len(pool))]
	}
}

// expr returns a numeric expression. callsOK allows user function calls.
func (g *pgen) expr(depth int, callsOK bool) string {
	r := g.r
	if depth <= 0 || r.Chance(2, 5) {
		return g.atom()
	}
	switch r.Intn(8) {
	case 0, 1:
		return "(" + g.expr(depth-1, callsOK) + " + " + g.expr(depth-1, callsOK) + ")"
	case 2:
		return "(" + g.expr(depth-1, callsOK) + " - " + g.expr(depth-1, callsOK) + ")"
	case 3:
		return "(" + g.expr(depth-1, callsOK) + " * " + fmt.Sprint(r.Range(2, 3)) + ")"
	case 4:
		return "(" + g.expr(depth-1, callsOK) + " % " + r.Pick([]string{"2", "3", "5", "7"}) + ")"
	case 5:
		return "(" + g.expr(depth-1, callsOK) + " // " + r.Pick([]string{"2", "3"}) + ")"
	default:
		if callsOK {
			if c := g.call(depth-1, false); c != "" {
				return c
			}
		}
		return g.atom()
	}
}

// call returns a call of a user function ("" if none is usable). Functions
// that may raise are used only where mayRaise allows it.
func (g *pgen) call(depth int, mayRaise bool) string {
	var usable []fdef
	for _, f := range g.funcs {
		if f.raises && !mayRaise && g.inTry == 0 {
			continue
		}
		usable = append(usable, f)
	}
	if len(usable) == 0 {
		return ""
	}
	f := usable[g.r.Intn(len(usable))]
	args := make([]string, f.params)
	for i := range args {
		// an argument may itself be a call (parameter resolved by another call)
		args[i] = g.expr(depth, g.r.Chance(1, 3))
	}
	if len(args) > 0 && g.r.Chance(1, 6) {
		args = args[:len(args)-1] // default value / NULL parameter is never used arithmetically: see fdef
		args = append(args, fmt.Sprint(g.r.Intn(5)))
	}
	return f.name + "(" + strings.Join(args, ", ") + ")"
}

func (g *pgen) cond() string {
	r := g.r
	c := g.expr(1, false) + " " + r.Pick([]string{"<", "<=", ">", ">=", "==", "!="}) + " " + g.expr(1, false)
	switch r.Intn(6) {
	case 0:
		return "not (" + c + ")"
	case 1:
		return "(" + c + ") and (" + g.expr(0, false) + " < " + g.expr(0, false) + ")"
	case 2:
		return "(" + c + ") or (" + g.expr(0, false) + " == " + g.expr(0, false) + ")"
	}
	return c
}

func (g *pgen) assignTarget() string {
	if g.inFunc && len(g.locals) > 0 && g.r.Bool() {
		return g.locals[g.r.Intn(len(g.locals))]
	}
	return numVars[g.r.Intn(len(numVars))]
}

func (g *pgen) block(ind, depth, n int) {
	for i := 0; i < n; i++ {
		g.stmt(ind, depth)
	}
}

func (g *pgen) stmt(ind, depth int) {
	r := g.r
	g.budget--
	if g.budget < 0 || depth <= 0 {
		g.simple(ind)
		return
	}
	switch r.Intn(16) {
	case 0, 1, 2, 3:
		g.simple(ind)
	case 4, 5: // if / elif / else
		g.emit(ind, "if "+g.cond()+" {")
		g.block(ind+1, depth-1, r.Range(1, 2))
		if r.Chance(1, 3) {
			g.emit(ind, "} elif "+g.cond()+" {")
			g.block(ind+1, depth-1, 1)
		}
		if r.Bool() {
			g.emit(ind, "} else {")
			g.block(ind+1, depth-1, r.Range(1, 2))
		}
		g.emit(ind, "}")
	case 6, 7: // range loop
		iv := g.fresh("i")
		a := r.Intn(3)
		b := a + r.Intn(3)
		if r.Chance(1, 5) {
			g.emit(ind, fmt.Sprintf("for %s in range(%d, %d, %d) {", iv, b+2, a, -1*r.Range(1, 2)))
		} else if r.Chance(1, 4) {
			g.emit(ind, fmt.Sprintf("for %s in range(%d) {", iv, r.Range(1, 3)))
		} else {
			g.emit(ind, fmt.Sprintf("for %s in range(%d, %d) {", iv, a, b))
		}
		g.loopBody(ind, depth, iv)
		g.emit(ind, "}")
	case 8: // guard loop with a counter that decreases first
		cv := g.fresh("c")
		g.emit(ind, fmt.Sprintf("%s := %d", cv, r.Range(1, 3)))
		g.emit(ind, fmt.Sprintf("for %s > 0 {", cv))
		g.emit(ind+1, fmt.Sprintf("%s := %s - 1", cv, cv))
		g.loopBody(ind, depth, cv)
		g.emit(ind, "}")
	case 9: // list loop
		xv := g.fresh("x")
		if r.Bool() {
			// l1 never grows (a loop over a list that its body extends need not end)
			g.emit(ind, fmt.Sprintf("for %s in l1 {", xv))
		} else {
			g.emit(ind, fmt.Sprintf("for %s in [%s, %s] {", xv, g.expr(1, false), g.expr(0, false)))
		}
		g.loopBody(ind, depth, xv)
		g.emit(ind, "}")
	case 10: // map loop
		kv, wv := g.fresh("k"), g.fresh("w")
		g.emit(ind, fmt.Sprintf("for [%s, %s] in m0 {", kv, wv))
		g.emit(ind+1, fmt.Sprintf("log(\"m \", %s, \"=\", %s)", kv, wv))
		g.loopBody(ind, depth, wv)
		g.emit(ind, "}")
	case 11, 12, 13: // try
		g.try(ind, depth)
	default: // call statement
		if c := g.call(1, false); c != "" {
			if r.Bool() {
				g.emit(ind, g.assignTarget()+" := "+c)
			} else {
				g.emit(ind, c)
			}
		} else {
			g.simple(ind)
		}
	}
}

func (g *pgen) loopBody(ind, depth int, lv string) {
	r := g.r
	g.loopVars = append(g.loopVars, lv)
	g.inLoop++
	n := r.Range(1, 2)
	for i := 0; i < n; i++ {
		g.stmt(ind+1, depth-1)
	}
	if r.Chance(1, 4) {
		g.emit(ind+1, "if "+g.cond()+" {")
		g.emit(ind+2, r.Pick([]string{"break", "continue"}))
		g.emit(ind+1, "}")
		g.simple(ind + 1)
	}
	g.inLoop--
	g.loopVars = g.loopVars[:len(g.loopVars)-1]
}

var errTypes = []string{"ErrA", "ErrB", "ErrC"}

func (g *pgen) try(ind, depth int) {
	r := g.r
	g.emit(ind, "try {")
	g.inTry++
	g.block(ind+1, depth-1, r.Range(0, 1))
	thrown := r.Pick(errTypes)
	form := r.Intn(4)
	kind := r.Intn(5)
	if (kind == 2 || kind == 3) && form < 2 {
		form = 2 + r.Intn(2) // errors of unknown type need a catch-all handler
	}
	switch kind {
	case 0, 1: // direct raise, possibly guarded
		if r.Bool() {
			g.emit(ind+1, "if "+g.cond()+" {")
			g.emit(ind+2, fmt.Sprintf("raise(%q, \"d%d\", [%s])", thrown, r.Intn(9), g.expr(0, false)))
			g.emit(ind+1, "}")
		} else {
			g.emit(ind+1, fmt.Sprintf("raise(%q, \"d%d\", %s)", thrown, r.Intn(9), g.expr(0, false)))
		}
	case 2: // raising function
		if c := g.call(1, true); c != "" {
			g.emit(ind+1, g.assignTarget()+" := "+c)
		}
	case 3: // runtime error
		g.emit(ind+1, g.assignTarget()+" := "+g.atom()+" + \"str\"")
	default: // nothing raised
	}
	if r.Bool() {
		g.simple(ind + 1)
	}
	g.inTry--
	ev := g.fresh("e")
	switch form {
	case 0:
		g.emit(ind, fmt.Sprintf("} except %q as %s {", thrown, ev))
		g.emit(ind+1, fmt.Sprintf("log(\"caught \", %s.type, \" \", %s.detail, \" \", %s.data)", ev, ev, ev))
	case 1:
		g.emit(ind, fmt.Sprintf("} except %q, %q as %s {", r.Pick(errTypes), thrown, ev))
		g.emit(ind+1, fmt.Sprintf("log(\"caught2 \", %s.type)", ev))
	case 2:
		g.emit(ind, fmt.Sprintf("} except %s {", ev))
		g.emit(ind+1, fmt.Sprintf("log(\"any \", %s.type, \" line \", %s.line)", ev, ev))
	default:
		g.emit(ind, fmt.Sprintf("} except %q as %s {", r.Pick(errTypes), ev))
		g.emit(ind+1, fmt.Sprintf("log(\"first \", %s.detail)", ev))
		g.emit(ind, "} except {")
		g.emit(ind+1, "log(\"fallback\")")
	}
	if r.Bool() {
		g.simple(ind + 1)
	}
	if r.Chance(1, 3) {
		g.emit(ind, "} otherwise {")
		g.simple(ind + 1)
	}
	if r.Chance(1, 3) {
		g.emit(ind, "} finally {")
		g.simple(ind + 1)
	}
	g.emit(ind, "}")
}

func (g *pgen) simple(ind int) {
	r := g.r
	switch r.Intn(12) {
	case 0, 1, 2, 3:
		g.emit(ind, g.assignTarget()+" := "+g.expr(2, true))
	case 4, 5, 6:
		g.emit(ind, fmt.Sprintf("log(\"t%d \", %s, \" \", %s)", r.Intn(100), g.expr(1, false), g.atom()))
	case 7:
		g.emit(ind, "l0 := add(l0, "+g.expr(1, false)+")")
	case 8:
		g.emit(ind, fmt.Sprintf("l0[%d] := %s", r.Intn(3), g.expr(1, true)))
	case 9:
		g.emit(ind, fmt.Sprintf("m0.%s := %s", r.Pick([]string{"a", "b", "c"}), g.expr(1, false)))
	case 10:
		g.emit(ind, "log(\"l0=\", l0, \" m0=\", m0)")
	default:
		g.emit(ind, fmt.Sprintf("m0[%q] := %s", r.Pick([]string{"b", "d"}), g.atom()))
	}
}

func (g *pgen) funcDef(idx int) {
	r := g.r
	f := fdef{name: fmt.Sprintf("f%d", idx), params: r.Range(1, 2), raises: r.Chance(1, 3)}
	var ps []string
	for i := 0; i < f.params; i++ {
		ps = append(ps, fmt.Sprintf("p%d", i))
	}
	sig := strings.Join(ps, ", ")
	if f.params == 2 && r.Chance(1, 3) {
		sig = "p0, p1=" + fmt.Sprint(r.Intn(5))
	}
	g.emit(0, fmt.Sprintf("func %s(%s) {", f.name, sig))
	g.inFunc = true
	g.params = ps
	lv := g.fresh("t")
	g.emit(1, fmt.Sprintf("let %s := %s", lv, g.expr(1, true)))
	g.locals = []string{lv}
	if f.raises {
		g.emit(1, fmt.Sprintf("if %s > %d {", ps[0], r.Range(2, 6)))
		g.emit(2, fmt.Sprintf("raise(%q, \"from %s\", [%s, %s])", r.Pick(errTypes), f.name, ps[0], lv))
		g.emit(1, "}")
	}
	save := g.budget
	g.budget = r.Range(1, 4)
	g.block(1, 2, r.Range(1, 3))
	g.budget = save
	if r.Chance(1, 4) {
		g.emit(1, "if "+g.cond()+" {")
		g.emit(2, "return "+g.expr(1, false))
		g.emit(1, "}")
	}
	g.emit(1, "return "+g.expr(2, true))
	g.emit(0, "}")
	g.inFunc = false
	g.params = nil
	g.locals = nil
	g.funcs = append(g.funcs, f)
}

// genProgram builds a single-threaded program.
func genProgram(r *core.Rand) *prog {
	g := &pgen{r: r}
	g.emit(0, fmt.Sprintf("v0 := %d", r.Intn(10)))
	g.emit(0, fmt.Sprintf("v1 := %d", r.Intn(10)))
	g.emit(0, fmt.Sprintf("v2 := %d", r.Intn(10)))
	g.emit(0, "v3 := 0")
	g.emit(0, fmt.Sprintf("l0 := [%d, %d, %d]", r.Intn(10), r.Intn(10), r.Intn(10)))
	g.emit(0, fmt.Sprintf("m0 := {\"a\": %d, \"b\": %d}", r.Intn(10), r.Intn(10)))
	g.emit(0, fmt.Sprintf("l1 := [%d, %d]", r.Intn(10), r.Intn(10)))
	nf := r.Range(0, 3)
	for i := 0; i < nf; i++ {
		g.funcDef(i)
	}
	if nf > 0 && r.Chance(1, 3) {
		// bounded recursion
		g.emit(0, "func rec(n) {")
		g.emit(1, "if n <= 0 {")
		g.emit(2, "return 0")
		g.emit(1, "}")
		g.emit(1, "return rec(n - 1) + n")
		g.emit(0, "}")
		g.emit(0, fmt.Sprintf("v3 := rec(%d)", r.Range(1, 3)))
	}
	g.budget = r.Range(4, 12)
	n := r.Range(3, 8)
	for i := 0; i < n; i++ {
		g.stmt(0, 3)
	}
	// occasionally end with an uncaught error: both runs must report it alike
	if r.Chance(1, 10) {
		g.emit(0, fmt.Sprintf("raise(\"Final\", \"end\", %s)", g.atom()))
	}
	g.emit(0, "log(\"end \", v0, \" \", v1, \" \", v2, \" \", v3)")
	if r.Chance(1, 2) {
		g.emit(0, "v0 + v1 * 2")
	}
	return &prog{src: strings.Join(g.lines, "\n") + "\n", nlines: len(g.lines)}
}

// genSinkProgram builds a program whose sinks run on several workers. The
// output of every event is order-independent: sinks read globals only
// (constants and functions), keep their state in let-locals, never fail, and
// report through log lines that carry the event id.
func genSinkProgram(r *core.Rand) *prog {
	g := &pgen{r: r}
	g.emit(0, fmt.Sprintf("v0 := %d", r.Intn(10)))
	g.emit(0, fmt.Sprintf("v1 := %d", r.Intn(10)))
	g.emit(0, fmt.Sprintf("v2 := %d", r.Intn(10)))
	g.emit(0, "v3 := 0")
	g.emit(0, fmt.Sprintf("l0 := [%d, %d, %d]", r.Intn(10), r.Intn(10), r.Intn(10)))
	g.emit(0, fmt.Sprintf("m0 := {\"a\": %d, \"b\": %d}", r.Intn(10), r.Intn(10)))
	g.emit(0, "func h(x, y) {")
	g.emit(1, "let t := x * 2 + y + v0")
	g.emit(1, "if t % 3 == 0 {")
	g.emit(2, "return t + 1")
	g.emit(1, "}")
	g.emit(1, "return t")
	g.emit(0, "}")
	g.emit(0, "func risky(x) {")
	g.emit(1, "if x % 2 == 0 {")
	g.emit(2, "raise(\"Even\", \"even id\", [x])")
	g.emit(1, "}")
	g.emit(1, "return x + v1")
	g.emit(0, "}")
	kinds := []string{"job.a", "job.b", "job.c"}
	nsinks := r.Range(2, 3)
	cascade := r.Chance(1, 3)
	for s := 0; s < nsinks; s++ {
		km := kinds[s%len(kinds)]
		if r.Chance(1, 4) {
			km = "job.*"
		}
		g.emit(0, fmt.Sprintf("sink s%d", s))
		g.emit(1, fmt.Sprintf("kindmatch [%q],", km))
		g.emit(1, fmt.Sprintf("priority %d", r.Intn(3)))
		g.emit(1, "{")
		g.emit(2, "let id := event.state.id")
		g.emit(2, "let acc := id + v2")
		if r.Bool() {
			g.emit(2, fmt.Sprintf("for j in range(1, %d) {", r.Range(1, 3)))
			g.emit(3, "acc := acc + h(id, j)")
			g.emit(2, "}")
		} else {
			g.emit(2, "acc := h(acc, h(id, 1))")
		}
		if r.Bool() {
			g.emit(2, "try {")
			g.emit(3, "acc := acc + risky(id)")
			g.emit(2, "} except \"Even\" as e {")
			g.emit(3, "acc := acc + 100 + e.data[0]")
			if r.Bool() {
				g.emit(2, "} finally {")
				g.emit(3, "acc := acc * 2")
			}
			g.emit(2, "}")
		}
		if r.Bool() {
			g.emit(2, "if acc > 20 {")
			g.emit(3, "acc := acc - l0[1]")
			g.emit(2, "} else {")
			g.emit(3, "acc := acc + m0.a")
			g.emit(2, "}")
		}
		if cascade && s == 0 {
			g.emit(2, "if id < 100 {")
			g.emit(3, fmt.Sprintf("addEvent(\"child\", %q, {\"id\": id + 100})", kinds[(s+1)%len(kinds)]))
			g.emit(2, "}")
		}
		g.emit(2, fmt.Sprintf("log(\"s%d id=\", id, \" acc=\", acc)", s))
		g.emit(1, "}")
	}
	nev := r.Range(2, 6)
	for e := 0; e < nev; e++ {
		k := kinds[r.Intn(nsinks)%len(kinds)]
		if r.Chance(1, 3) {
			g.emit(0, fmt.Sprintf("r%d := addEventAndWait(\"ev%d\", %q, {\"id\": %d})", e, e, k, e+1))
		} else {
			g.emit(0, fmt.Sprintf("addEvent(\"ev%d\", %q, {\"id\": %d})", e, k, e+1))
		}
	}
	g.emit(0, "log(\"main end\")")
	return &prog{src: strings.Join(g.lines, "\n") + "\n", nlines: len(g.lines), sink: true,
		workers: r.Range(2, 4), events: nev}
}
