// Package c15 holds the runtime monitors for property C15 (see DESIGN.md
// section 4): debugging only observes (same outcome as an undebugged run),
// arrivals at active breakpoints suspend, and every suspended thread can be
// resumed (no lost wake-up) – by Continue and by StopThreads.
package c15

import (
	"fmt"
	"os"
	"strings"

	"verif/harness/core"
	"verif/harness/sched"
)

func init() { core.Register("C15", Run) }

const cfgsPerProgram = 4

func genCfg(r *core.Rand, p *prog, quick bool) dcfg {
	var d dcfg
	switch r.Intn(6) {
	case 0:
		d.bpMode = "none"
	case 1:
		d.bpMode = "all"
		for l := 1; l <= p.nlines; l++ {
			d.bps = append(d.bps, l)
		}
	case 2, 3:
		d.bpMode = "subset"
	default:
		d.bpMode = "dynamic"
	}
	if d.bpMode == "subset" || d.bpMode == "dynamic" {
		den := []int{8, 4, 2}[r.Intn(3)]
		for l := 1; l <= p.nlines; l++ {
			if r.Chance(1, den) {
				d.bps = append(d.bps, l)
			} else if r.Chance(1, 12) {
				d.disabled = append(d.disabled, l)
			}
		}
		d.dynRate = r.Range(2, 10)
	}
	d.breakOnStart = r.Chance(1, 4)
	d.breakOnError = !r.Chance(1, 3)
	cmds := []string{"resume", "stepin", "stepover", "stepout"}
	switch r.Intn(8) {
	case 0:
		d.script, d.scriptName = []string{"resume"}, "resume"
	case 1:
		d.script, d.scriptName = []string{"stepin"}, "stepin"
	case 2:
		d.script, d.scriptName = []string{"stepover"}, "stepover"
	case 3:
		d.script, d.scriptName = []string{"stepin", "stepout"}, "stepin,stepout"
	case 4:
		d.script, d.scriptName = []string{"stepin", "stepin", "stepout", "resume"}, "stepin,stepin,stepout,resume"
	default:
		n := r.Range(3, 9)
		for i := 0; i < n; i++ {
			d.script = append(d.script, cmds[r.Intn(4)])
		}
		d.scriptName = strings.Join(d.script, ",")
	}
	d.viaInput = r.Chance(1, 3)
	d.timing = []int{0, 1, 1, 2}[r.Intn(4)]
	d.dynSeed = r.U64()
	d.maxSusp = 600
	if !quick {
		d.maxSusp = 1500
	}
	return d
}

// report adds what the monitors of one session saw to the evidence counters.
func (s *session) report(c *core.Ctx) {
	hs := s.m.hookSnapshot()
	for _, h := range hs {
		switch h.point {
		case "dbg.beforewait", "dbg.resumed":
			c.Event(h.point+"("+h.site+")", 1)
		case "dbg.broadcast":
			c.Event(h.point+"("+h.kind+")", 1)
		}
	}
	for k, n := range s.cmdCount {
		c.Event("cont."+k, int64(n))
	}
	// commands that acted (hook inside Continue) minus releases: commands that
	// changed the state of a thread that was not waiting
	if !s.stopped && len(s.stucks) == 0 {
		nb, nr := 0, 0
		for _, h := range hs {
			switch {
			case h.point == "dbg.broadcast" && h.kind == "continue":
				nb++
			case h.point == "dbg.resumed":
				nr++
			}
		}
		if nb > nr {
			c.Event("cont.acted-on-running-thread", int64(nb-nr))
		}
	}
	if s.contPanics > 0 {
		c.Event("cont.panic(stepout-empty-stack,C16)", int64(s.contPanics))
	}
	if s.rescued > 0 {
		c.Event("stuck.woken-by-cleanup", int64(s.rescued))
	}
	if s.drain {
		c.Event("driver.drained", 1)
	}
	c.Event("visits", s.m.nvisits)
}

func (s *session) hookTail(n int) []string {
	hs := s.m.hookSnapshot()
	if len(hs) > n {
		hs = hs[len(hs)-n:]
	}
	var r []string
	for _, e := range hs {
		r = append(r, fmt.Sprintf("%d g%d %s tid=%d line=%d %s%s", e.seq, e.g, e.point, e.tid, e.line, e.site, e.kind))
	}
	return r
}

// signature of the interleaving of one session: sequence of (role, point, site/kind)
func (s *session) signature() uint64 {
	roles := map[uint64]int{}
	var b strings.Builder
	for _, e := range s.m.hookSnapshot() {
		r, ok := roles[e.g]
		if !ok {
			r = len(roles) + 1
			roles[e.g] = r
		}
		fmt.Fprintf(&b, "%d%s%s%s;", r, e.point, e.site, e.kind)
	}
	return core.Hash64(b.String())
}

// dump prints generated programs and their plain outcome (debugging aid for
// the generator: VH_C15_DUMP=<n> or sink:<n>).
func dump(c *core.Ctx, spec string) {
	sink := strings.HasPrefix(spec, "sink:")
	n := 0
	fmt.Sscanf(strings.TrimPrefix(spec, "sink:"), "%d", &n)
	bad := 0
	for i := 0; i < n; i++ {
		var p *prog
		if sink {
			p = genSinkProgram(c.Rng("sink-src", i))
		} else {
			p = genProgram(c.Rng("prog-src", i))
		}
		o, why := runPlain(p)
		if why != "" || o.panicked != "" {
			bad++
			fmt.Printf("==== %d BAD %s %s\n%s\n", i, why, o.panicked, p.src)
			continue
		}
		if i < 6 || os.Getenv("VH_C15_DUMP_ALL") != "" {
			fmt.Printf("==== %d\n%s---- res=%q err=%q\n%s\n---- scope\n%s\n", i, p.src, o.res, o.err, strings.Join(o.logs, "\n"), o.scope)
		} else if o.err != "" {
			fmt.Printf("==== %d err=%q\n", i, o.err)
		}
	}
	fmt.Printf("%d programs, %d bad\n", n, bad)
}

// runCase is one (program, debugger configuration) pair: oracles (1), (2) and
// the passive form of (3).
func runCase(c *core.Ctx, slot int, stream string, idx int, p *prog, cfg dcfg, sigs chan<- uint64) {
	c.Begin(slot, stream, idx, cfg.String()+"\n"+p.src)
	defer c.End(slot)
	plain, why := runPlain(p)
	if why != "" {
		if strings.HasPrefix(why, "parse:") {
			// the generator must only emit valid programs
			c.Event("generator.invalid-program", 1)
		}
		c.Inconclusive(why, stream, idx, p.src)
		return
	}
	if plain.panicked != "" {
		c.Event("plain.panic(not C15)", 1)
		return
	}
	if p.sink {
		// sink programs must be order independent: a second plain run is the
		// witness (a harness problem otherwise, never a verdict)
		again, why2 := runPlain(p)
		if k, d := diffOutcome(plain, again); why2 != "" || k != "" {
			c.Event("generator.nondeterministic-plain", 1)
			c.Inconclusive("plain runs of a sink program differ", stream, idx, p.src+"\n"+why2+k+d)
			return
		}
	}
	s, err := newSession(c, p, cfg)
	if err != nil {
		c.Inconclusive("parse (debugged): "+err.Error(), stream, idx, p.src)
		return
	}
	s.stream, s.idx = stream, idx
	defer s.close()
	detail := func(extra map[string]interface{}) map[string]interface{} {
		d := map[string]interface{}{"program": p.src, "config": cfg.String()}
		for k, v := range extra {
			d[k] = v
		}
		return d
	}
	reported := map[string]bool{}
	onStuck := func(si *stuckInfo) {
		k := stuckKey(si)
		c.Event("stuck."+si.site+"."+si.kind, 1)
		if reported[k] {
			return
		}
		reported[k] = true
		c.Violation(k, stuckWhat(si),
			stream, idx, detail(map[string]interface{}{"trace": si.trace, "goroutine": si.g}))
	}
	s.x.start()
	v := s.drive([]chan struct{}{s.x.done}, onStuck)
	s.report(c)
	select {
	case sigs <- s.signature():
	default:
	}
	nsusp := 0
	for _, h := range s.m.hookSnapshot() {
		if h.point == "dbg.beforewait" {
			nsusp++
		}
	}
	switch v {
	case "stuck":
		c.Event("case.stuck-leaked", 1)
		return
	case "inconclusive":
		c.Inconclusive("debugged run neither finished nor stuck", stream, idx,
			detail(map[string]interface{}{"hooks": s.hookTail(30), "goroutines": trunc(sched.FullDump(), 6000)}))
		return
	}
	c.Event("case.done", 1)
	if nsusp > 0 {
		c.NontrivialKey(stream + "|" + p.src + "|" + cfg.String())
	}
	// oracle (1)
	out := s.x.collect()
	if k, d := diffOutcome(plain, out); k != "" {
		c.Violation(k, "debugged run differs from the plain run of the same program", stream, idx, detail(map[string]interface{}{"diff": d, "suspensions": nsusp}))
	} else {
		c.Event("transparency.equal", 1)
	}
	// oracle (2)
	br := s.checkBreakpoints()
	c.Event("bp.must-suspend", int64(br.must))
	c.Event("bp.must-suspend.matched", int64(br.matched))
	c.Event("bp.ambiguous(concurrent change)", int64(br.ambiguous))
	if br.wrongLine > 0 {
		c.Violation("bp:suspended-at-other-line", "a suspension inside the visit of a breakpoint line reports another line", stream, idx, detail(nil))
	}
	seen := map[string]bool{}
	for _, m := range br.misses {
		k := bpMissKey(m)
		c.Event(k, 1)
		if m.inFlight {
			// a command addressed to the thread raced with the visit (only
			// possible while the thread is reported suspended although it
			// runs): which command was in effect is not observable, no verdict
			continue
		}
		if seen[k] {
			continue
		}
		seen[k] = true
		c.Violation(k, fmt.Sprintf("thread %d arrived at line %d (from a different line) while a breakpoint was active there and did not suspend; last command to the thread: %s", m.a.tid, m.a.line, m.lastCmd),
			stream, idx, detail(map[string]interface{}{"line": m.a.line, "tid": m.a.tid, "visit_interval": []int64{m.a.v0, m.a.v1}, "trace": m.context}))
	}
	if idx%97 == 3 {
		c.Sample(stream, map[string]interface{}{"program": p.src, "config": cfg.String(), "suspensions": nsusp,
			"continues": s.nconts, "must_suspend": br.must, "log_lines": len(out.logs)})
	}
}

// Run is the check.
func Run(c *core.Ctx) {
	c.Note("rule", "cases: (a) stream 'prog': seeded single-threaded ECAL programs (assignments, arithmetic, if/elif/else, range / guard / list / map loops with break/continue, functions with defaults, nested and recursive calls, try/except/otherwise/finally with raise and runtime errors, log, lists, maps; one statement per line), each under 4 debugger configurations drawn from: breakpoints {none, every line, random subsets incl. disabled ones, set/disable/remove/remove-all while running} x breakonstart x break-on-error {default, off} x command script over {resume, stepin, stepover, stepout} per suspended thread x command route {Continue(), HandleInput} x driver timing {immediate, settled, seeded delay}, with seeded noise at the dbg.* hook points; (b) stream 'sink': programs with 2-3 sinks on 2-4 workers (addEvent / addEventAndWait, optional cascade; per-event output order independent, compared as sorted log) under the same configurations; (c) stream 'gate': a fixed matrix of directed gates dbg.beforewait -> dbg.broadcast over wait site {breakpoint (incl. breakonstart), step, error} x position {first line, in call, nested call, after call, loop, sink worker} x releasing command {resume, stepin, stepover, stepout, StopThreads}, plus StopThreads with 3-4 threads (one held in the window / all really parked). (d) stream 'xsource': a call on line lc of the main source into a function whose body starts on line lf of an imported source, active breakpoints on both lines (and optionally on the line after the call), the first stop left with {resume, stepover, stepin}: complete grid lc, lf in 3..7 (incl. equal line numbers in the two sources), the sequence of suspensions read through Status/Describe must contain every breakpoint line in order. stepout for a thread outside any call is only issued if a start-up probe shows that it no longer panics (that panic is owned by C16). The race build runs a subset and decides only on race reports whose innermost frame is Set/Disable/RemoveBreakPoint. A case is non-trivial if the debugged run suspended at least once (a, b) or the gate held the thread and was opened by the partner's broadcast (c); distinct = distinct (program, configuration) pairs / scenarios")
	if n := os.Getenv("VH_C15_DUMP"); n != "" {
		dump(c, n)
		return
	}
	h := getHub()
	quick := c.Quick()
	if topLevelStepOutOK() {
		c.Event("probe.stepout-at-top-level.ok", 1)
	} else {
		c.Event("probe.stepout-at-top-level.panics(C16)", 1)
	}

	// ---- (c) directed gates: sequential inside a process
	scns := gateScenarios()
	reps := c.Pick(1, 3)
	c.Parallel(1, "gate", len(scns)*reps, func(slot, idx int) {
		if c.Race && quick && idx%2 == 1 && !c.Replay() {
			return // quick race build: every other scenario
		}
		runGate(c, slot, "gate", idx, scns[idx%len(scns)])
	})

	// ---- (d) breakpoints in an imported source (complete grid, no noise)
	c.Parallel(1, "xsource", 5*5*2*3, func(slot, idx int) {
		runXSource(c, idx)
	})

	// ---- (a), (b): seeded noise at the hook points from here on
	h.tr.SetNoise(c.Seed*7919+uint64(c.Batch), 40)
	sigs := make(chan uint64, 1<<16)
	par := 3
	if v := os.Getenv("VH_C15_PAR"); v != "" {
		fmt.Sscanf(v, "%d", &par)
	}
	nprog := c.Pick(6000, 60000)
	nsink := c.Pick(1200, 8000)
	if c.Race {
		// the race build is an additional, slower scheduler; its reports about
		// breakpoint changes racing with a running thread decide (race_rule)
		nprog, nsink = c.Pick(600, 6000), c.Pick(120, 800)
	}
	c.Parallel(par, "prog", nprog, func(slot, idx int) {
		p := genProgram(c.Rng("prog-src", idx/cfgsPerProgram))
		cfg := genCfg(c.Rng("prog", idx), p, quick)
		runCase(c, slot, "prog", idx, p, cfg, sigs)
	})
	c.Parallel(par, "sink", nsink, func(slot, idx int) {
		p := genSinkProgram(c.Rng("sink-src", idx/cfgsPerProgram))
		cfg := genCfg(c.Rng("sink", idx), p, quick)
		runCase(c, slot, "sink", idx, p, cfg, sigs)
	})
	close(sigs)
	set := map[uint64]struct{}{}
	for s := range sigs {
		set[s] = struct{}{}
	}
	c.Event("interleaving-signatures.distinct(sum over batches)", int64(len(set)))
}
