// Package c15 holds the runtime monitors for property C15 (see DESIGN.md section 4).
package c15

import "verif/harness/core"

func init() { core.Register("C15", Run) }

// Run is the check.
func Run(c *core.Ctx) {
}
