package c15

import (
	"fmt"
	"sort"
	"strings"
	"sync/atomic"
	"time"

	"github.com/krotik/ecal/interpreter"
	"github.com/krotik/ecal/parser"
	"github.com/krotik/ecal/scope"
	"github.com/krotik/ecal/util"

	"verif/harness/core"
)

// Stream xsource: a program that calls a function of an imported source. The
// call stands on line lc of the main source, the first statement of the
// function on line lf of the other source; active breakpoints on both lines
// (plus, optionally, on the line after the call). "A thread suspends whenever
// it arrives, from a different line, at a line with an active breakpoint" -
// line lf of the other source is a different line than line lc of the main
// source also when the two numbers are equal. Every (lc, lf) of a small grid
// is run; the sequence of suspensions (source:line) is compared with the
// expected one. No timing decides: the thread either parks (hook-free
// observation through Status/Describe, as a debugger front end does it) or
// ends.
func runXSource(c *core.Ctx, idx int) {
	const grid = 5 // lines 3..7
	lc := 3 + idx%grid
	lf := 3 + (idx/grid)%grid
	after := (idx/(grid*grid))%2 == 1
	cont := []string{"resume", "stepover", "stepin"}[(idx/(grid*grid*2))%3]
	desc := fmt.Sprintf("call on main:%d, function body on lib:%d, breakpoint after the call=%v, released with %s", lc, lf, after, cont)
	c.Begin(0, "xsource", idx, desc)
	defer c.End(0)

	lib := "func myfunc(n) {" + strings.Repeat("\n", lf-1) + "  return n + 1\n}\n"
	// line 1: import, line 2: a := 1, call on line lc, one more statement after it
	main := "import \"foo/bar\" as foobar\na := 1" + strings.Repeat("\n", lc-2) + "a := foobar.myfunc(a)\nb := a + 1\n"
	il := &util.MemoryImportLocator{Files: map[string]string{"foo/bar": lib}}
	erp := interpreter.NewECALRuntimeProvider("c15x", il, util.NewMemoryLogger(10))
	defer func() { go erp.Cron.Stop() }()
	gvs := scope.NewScope(scope.GlobalScope)
	dbg := interpreter.NewECALDebugger(gvs)
	erp.Debugger = dbg
	ast, err := parser.ParseWithRuntime("main", main, erp)
	if err == nil {
		err = ast.Runtime.Validate()
	}
	if err != nil {
		c.Inconclusive("xsource: program rejected: "+err.Error(), "xsource", idx, map[string]interface{}{"main": main, "lib": lib})
		return
	}
	dbg.SetBreakPoint("main", lc)
	dbg.SetBreakPoint("foo/bar", lf)
	expect := []string{fmt.Sprintf("main:%d", lc), fmt.Sprintf("foo/bar:%d", lf)}
	if after {
		dbg.SetBreakPoint("main", lc+1)
		expect = append(expect, fmt.Sprintf("main:%d", lc+1))
	}
	tid := erp.NewThreadID()
	var done int32
	var evalErr error
	go func() {
		defer atomic.StoreInt32(&done, 1)
		core.Guard(func() { _, evalErr = ast.Runtime.Eval(gvs, make(map[string]interface{}), tid) })
	}()
	var stops []string
	ct := map[string]util.ContType{"resume": util.Resume, "stepover": util.StepOver, "stepin": util.StepIn}[cont]
	outcome := "timeout"
	for i := 0; i < 40000; i++ {
		if atomic.LoadInt32(&done) == 1 {
			outcome = "ended"
			break
		}
		st, _ := dbg.Status().(map[string]interface{})["threads"].(map[string]map[string]interface{})
		if v, ok := st[fmt.Sprint(tid)]; ok && v["threadRunning"] == false {
			d, _ := dbg.Describe(tid).(map[string]interface{})
			n, _ := d["node"].(map[string]interface{})
			at := fmt.Sprintf("%v:%v", n["source"], n["line"])
			stops = append(stops, at)
			if len(stops) > 12 {
				outcome = "too-many-stops"
				dbg.StopThreads(0)
				break
			}
			// a stop that is expected is left with the command under test, any
			// other one (a step that ended somewhere) with a plain resume
			if len(stops) <= len(expect) && at == expect[len(stops)-1] && len(stops) == 1 {
				dbg.Continue(tid, ct)
			} else {
				dbg.Continue(tid, util.Resume)
			}
			continue
		}
		time.Sleep(100 * time.Microsecond)
	}
	if outcome != "ended" {
		dbg.StopThreads(0)
		c.Inconclusive("xsource: the debugged thread neither ended nor stayed within 12 suspensions ("+outcome+")", "xsource", idx, map[string]interface{}{"case": desc, "stops": stops})
		return
	}
	c.Event("xsource.runs", 1)
	c.Event("xsource.suspensions", int64(len(stops)))
	if lc == lf {
		c.Event("xsource.runs-with-equal-line-numbers-in-both-sources", 1)
	}
	c.NontrivialKey("xsource|" + desc)
	// every expected stop must occur, in this order (steps may add stops in between)
	j := 0
	for _, s := range stops {
		if j < len(expect) && s == expect[j] {
			j++
		}
	}
	if j < len(expect) {
		missing := expect[j]
		eq := "different-numbers"
		if lc == lf {
			eq = "equal-numbers"
		}
		key := "bpmiss:other-source:" + cont + ":" + eq
		if !strings.HasPrefix(missing, "foo/bar") {
			key = "bpmiss:after-call-into-other-source:" + cont + ":" + eq
		}
		sort.Strings(nil)
		c.Violation(key, fmt.Sprintf("the thread did not suspend at the active breakpoint %s (suspensions: %v, expected in this order: %v; result error: %v)", missing, stops, expect, evalErr), "xsource", idx,
			map[string]interface{}{"case": desc, "main": main, "lib": lib})
	}
}
