package c07

import (
	"fmt"
	"os"
	"path/filepath"
	"sort"
	"strings"
	"unicode/utf8"

	"verif/harness/core"
)

// alphabet of the exhaustive stream: single tokens plus block-opening
// fragments, so that 4..5 entries reach nested blocks, stray terminators
// inside blocks and every statement form of the grammar.
var alphabet = []string{
	"a", "1", `"s"`, "(", ")", "[", "]", "{", "}", ",", ";", "\n", ".", ":", ":=", "+", "*",
	"not", "let", "return", "in",
	"if a {", "else {", "elif a {", "for a {", "try {", `except "e" as a {`, "finally {",
	"func f(a) {", "mutex m {", "sink s", "@", "if",
}

func seqFromIndex(i, n int) []int {
	s := make([]int, n)
	for k := n - 1; k >= 0; k-- {
		s[k] = i % len(alphabet)
		i /= len(alphabet)
	}
	return s
}

func joinSeq(s []int) string {
	var b strings.Builder
	for i, t := range s {
		if i > 0 {
			b.WriteByte(' ')
		}
		b.WriteString(alphabet[t])
	}
	return b.String()
}

// ---------------------------------------------------------------------
// an own, deliberately simple chunker (not the lexer of /repo): splits a
// source text into token texts, each with the separator text that follows.

type tok struct {
	text string
	sep  string
}

func isWord(b byte) bool {
	return b == '_' || b >= '0' && b <= '9' || b >= 'a' && b <= 'z' || b >= 'A' && b <= 'Z' || b >= 0x80
}

func chunk(src string) (lead string, toks []tok) {
	i := 0
	n := len(src)
	sepEnd := func(i int) int {
		for i < n {
			c := src[i]
			switch {
			case c <= ' ' || c == 0x7f:
				i++
			case c == '#':
				for i < n && src[i] != '\n' {
					i++
				}
			case c == '/' && i+1 < n && src[i+1] == '*':
				j := strings.Index(src[i+2:], "*/")
				if j < 0 {
					return n
				}
				i += 2 + j + 2
			default:
				return i
			}
		}
		return i
	}
	i = sepEnd(0)
	lead = src[:i]
	for i < n {
		st := i
		c := src[i]
		switch {
		case c == '"' || c == '\'' || (c == 'r' && i+1 < n && (src[i+1] == '"' || src[i+1] == '\'')):
			raw := c == 'r'
			if raw {
				i++
			}
			q := src[i]
			i++
			for i < n && src[i] != q {
				if src[i] == '\\' && !raw && i+1 < n {
					i++
				}
				i++
			}
			if i < n {
				i++
			}
		case isWord(c):
			for i < n && isWord(src[i]) {
				i++
			}
		default:
			i++
			if i < n {
				two := src[st : i+1]
				switch two {
				case ">=", "<=", "!=", "==", ":=", "//":
					i++
				}
			}
		}
		e := sepEnd(i)
		toks = append(toks, tok{src[st:i], src[i:e]})
		i = e
	}
	return
}

// bracketsBalanced is a necessary condition for acceptance that needs no
// grammar: the parser consumes ')' ']' '}' only as the partner of an opener and
// accepts only if all tokens were consumed, so an accepted text has properly
// nested brackets outside strings and comments. applicable is false where the
// chunker's view of string boundaries could differ from the lexer's
// (backslashes, control characters, invalid UTF-8) - then nothing is judged.
func bracketsBalanced(src string) (balanced bool, applicable bool, why string) {
	if !utf8.ValidString(src) {
		return true, false, ""
	}
	for i := 0; i < len(src); i++ {
		c := src[i]
		if c == '\\' || c >= 0x7f || c < ' ' && c != '\n' && c != '\t' && c != '\r' {
			return true, false, ""
		}
	}
	_, toks := chunk(src)
	var st []byte
	for i, t := range toks {
		if len(t.text) != 1 {
			continue
		}
		switch c := t.text[0]; c {
		case '(', '[', '{':
			st = append(st, c)
		case ')', ']', '}':
			want := map[byte]byte{')': '(', ']': '[', '}': '{'}[c]
			if len(st) == 0 || st[len(st)-1] != want {
				return false, true, fmt.Sprintf("closing %q (token %d) has no matching opener", c, i)
			}
			st = st[:len(st)-1]
		}
	}
	if len(st) > 0 {
		return false, true, fmt.Sprintf("%d opener(s) never closed", len(st))
	}
	return true, true, ""
}

func render(lead string, toks []tok) string {
	var b strings.Builder
	b.WriteString(lead)
	for _, t := range toks {
		b.WriteString(t.text)
		b.WriteString(t.sep)
	}
	return b.String()
}

var openers = []string{"(", "[", "{"}
var closers = []string{")", "]", "}"}
var strays = []string{";", "}", ")"}
var fillers = []string{"a", "1", `"s"`, "+", "*", ":=", ":", "=", ",", ".", "not", "let", "return", "in",
	"if", "elif", "else", "for", "break", "continue", "try", "except", "otherwise", "finally", "func",
	"mutex", "sink", "kindmatch", "priority", "import", "as", "and", "or", "like", "null", "true",
	"-", "//", "%", "<=", "==", "@", "\"", "'", "r\"", "/*", "#", "]", "[", "(", ")", "{", "}", ";", "\n"}

func isBracket(s string) bool {
	return len(s) == 1 && strings.ContainsAny(s, "()[]{}")
}

func sepOr(s string) string {
	if s == "" {
		return " "
	}
	return s
}

// mutate applies 1..3 random token-level mutations and returns the text and
// the list of operator names that were applied.
func mutate(r *core.Rand, src string) (string, []string) {
	lead, toks := chunk(src)
	var ops []string
	nm := 1
	if r.Chance(2, 5) {
		nm = 2 + r.Intn(2)
	}
	for m := 0; m < nm; m++ {
		if len(toks) == 0 {
			toks = append(toks, tok{fillers[r.Intn(len(fillers))], " "})
			ops = append(ops, "insert-into-empty")
			continue
		}
		i := r.Intn(len(toks))
		switch op := r.Intn(12); op {
		case 0: // delete
			ops = append(ops, "delete")
			sep := sepOr(toks[i].sep)
			if i > 0 {
				toks[i-1].sep = sepOr(toks[i-1].sep) + sep
			} else {
				lead += sep
			}
			toks = append(toks[:i], toks[i+1:]...)
		case 1: // duplicate
			ops = append(ops, "duplicate")
			d := tok{toks[i].text, " "}
			toks = append(toks[:i], append([]tok{d}, toks[i:]...)...)
		case 2: // swap two tokens
			ops = append(ops, "swap")
			j := r.Intn(len(toks))
			if r.Bool() && i+1 < len(toks) {
				j = i + 1
			}
			toks[i].text, toks[j].text = toks[j].text, toks[i].text
		case 3: // unbalance: delete one bracket
			ops = append(ops, "drop-bracket")
			var idx []int
			for k, t := range toks {
				if isBracket(t.text) {
					idx = append(idx, k)
				}
			}
			if len(idx) > 0 {
				k := idx[r.Intn(len(idx))]
				toks[k].text = ""
				toks[k].sep = sepOr(toks[k].sep)
			}
		case 4: // unbalance: extra opener / closer anywhere
			ops = append(ops, "extra-bracket")
			b := openers[r.Intn(3)]
			if r.Bool() {
				b = closers[r.Intn(3)]
			}
			toks = append(toks[:i], append([]tok{{b, " "}}, toks[i:]...)...)
		case 5: // unbalance: replace a bracket by one of another type
			ops = append(ops, "replace-bracket")
			var idx []int
			for k, t := range toks {
				if isBracket(t.text) {
					idx = append(idx, k)
				}
			}
			if len(idx) > 0 {
				k := idx[r.Intn(len(idx))]
				all := append(append([]string{}, openers...), closers...)
				toks[k].text = all[r.Intn(len(all))]
			}
		case 6, 7: // stray terminator inside a block: after a '{' or after a ';'/newline inside braces
			ops = append(ops, "stray-in-block")
			var idx []int
			depth := 0
			for k, t := range toks {
				if t.text == "{" {
					depth++
					idx = append(idx, k+1)
				} else if t.text == "}" {
					if depth > 0 {
						depth--
					}
				} else if depth > 0 && (strings.Contains(t.sep, "\n") || t.text == ";") {
					idx = append(idx, k+1)
				}
			}
			s := strays[r.Intn(len(strays))]
			k := i
			if len(idx) > 0 {
				k = idx[r.Intn(len(idx))]
			}
			if k > len(toks) {
				k = len(toks)
			}
			ins := tok{s, " "}
			if r.Chance(1, 3) {
				ins.sep = "\n"
			}
			toks = append(toks[:k], append([]tok{ins}, toks[k:]...)...)
		case 8: // replace by a random filler
			ops = append(ops, "replace")
			toks[i].text = fillers[r.Intn(len(fillers))]
			toks[i].sep = sepOr(toks[i].sep)
		case 9: // truncate (end of input in the middle)
			ops = append(ops, "truncate")
			toks = toks[:i+1]
			if r.Bool() {
				toks[i].sep = ""
			}
		case 10: // change the line structure: newline <-> space after a token
			ops = append(ops, "relayout")
			if strings.Contains(toks[i].sep, "\n") {
				toks[i].sep = " "
			} else {
				toks[i].sep = "\n"
			}
		case 11: // insert a random filler
			ops = append(ops, "insert")
			toks = append(toks[:i], append([]tok{{fillers[r.Intn(len(fillers))], " "}}, toks[i:]...)...)
		}
	}
	return render(lead, toks), ops
}

// ---------------------------------------------------------------------
// own templates: every construct of the grammar at least once

var templates = []string{
	"a := 1 + 2 * 3",
	"let b := [1, 2, 3]",
	"let [x, y] := [1, 2]\n[x, y] := [y, x]",
	`c := {"a": 1, "b": [1, 2], 3: null}`,
	"if a > 1 and not false {\n    b := 1\n} elif a == 0 {\n    b := 2\n} else {\n    b := 3\n}",
	"if true { 1 + 2 ; b := 1 }",
	"if true { a := 1; b := 2\n c := 3 }",
	"for i in range(1, 3) {\n    if i == 2 { continue }\n    b := i\n}",
	"for [k, v] in {1: 2} { x := k; y := v }",
	"a := 0\nfor a < 3 { a := a + 1; if a == 2 { break } }",
	"func add(x, y=2) {\n    return x + y\n}\nr := add(1) + add(1, 2)",
	"f := func (x) { return x * 2 }\nr := f(2)",
	"func g() {\n return\n}\ng()",
	`try { raise("E", "msg", [1]) } except "E", "F" as e { x := e.type } except e2 { x := 1 } otherwise { x := 2 } finally { x := 3 }`,
	"try {\n x := 1\n} except {\n x := 2\n}",
	`try { x := 1 / 0 } except "a" { x := 2 } finally { y := 1 }`,
	"mutex m {\n x := 1\n}",
	`sink s kindmatch ["a.b"], scopematch ["s"], statematch {"a": 1}, priority 1, suppresses ["t"] { x := event.state }`,
	`sink t
    kindmatch ["a"],
    {
        y := 1
    }`,
	`import "lib" as lib`,
	`c := {"a": 1, "b": [1, [2, 3]]}; d := c.a; e := c.b[0]; g := c["b"][1][0]`,
	`o := {"f": func () { return this }}
o.f()`,
	`s := "x{{1+2}}y" ; t := r"raw{{a}}"; u := 'single'; v := "a\nb\"c"`,
	"v := -a + +a - (a // 2) % 3 / 4",
	`w := "a" like "a.*" or "x" hasprefix "x" or "x" hassuffix "x" or 1 in [1] or 1 notin [2]`,
	"x := a >= 1; y := a <= 1; z := a != 1; q := null; p := a < 1; o := a > 1",
	"return 1",
	"# comment\n/* pre */ a := 1 # post\nb := 2",
	"a := [\n 1,\n 2\n]\nb := {\n 1 : 2\n}",
	"a(1)(2).b[3].c(4)",
	"func (a, b) { }",
	"for true { break }",
	"len([1,2]) + len({1:2})",
	"a := new({\"x\": 1})\nb := a.x",
	`f := func () {
    let a := 1
    return a
}`,
}

// loadCorpus reads the seed programs: own templates, /repo/examples/**/*.ecal
// and the raw string literals of the repository's *_test.go files. Programs
// calling into the stdlib (math.*) are left out: their Go implementations are
// not bounded by the evaluation step budget.
func loadCorpus(repo string) (progs []string, counts map[string]int) {
	counts = map[string]int{}
	seen := map[string]bool{}
	add := func(s, class string) {
		if s == "" || len(s) > 6000 || seen[s] || strings.Contains(s, "math.") {
			return
		}
		seen[s] = true
		progs = append(progs, s)
		counts[class]++
	}
	for _, t := range templates {
		add(t, "templates")
	}
	var files []string
	filepath.Walk(filepath.Join(repo, "examples"), func(p string, info os.FileInfo, err error) error {
		if err == nil && !info.IsDir() && strings.HasSuffix(p, ".ecal") {
			files = append(files, p)
		}
		return nil
	})
	sort.Strings(files)
	for _, f := range files {
		if b, err := os.ReadFile(f); err == nil {
			add(string(b), "examples")
		}
	}
	var tests []string
	for _, d := range []string{"parser", "interpreter", "cli/tool", "scope", "engine"} {
		m, _ := filepath.Glob(filepath.Join(repo, d, "*_test.go"))
		tests = append(tests, m...)
	}
	sort.Strings(tests)
	for _, f := range tests {
		b, err := os.ReadFile(f)
		if err != nil {
			continue
		}
		parts := strings.Split(string(b), "`")
		for i := 1; i < len(parts); i += 2 {
			s := strings.TrimSpace(parts[i])
			if looksLikeProgram(s) {
				add(s, "test-sources")
			}
		}
	}
	return
}

// looksLikeProgram is a lexical filter (no use of the parser under test):
// keeps literals that look like ECAL source rather than printed trees, JSON
// or log output.
func looksLikeProgram(s string) bool {
	if len(s) < 3 {
		return false
	}
	if strings.HasPrefix(s, "{") && strings.Contains(s, "\": ") && !strings.Contains(s, ":=") {
		return false // JSON
	}
	lines := strings.Split(s, "\n")
	tree := 0
	for _, l := range lines {
		t := strings.TrimSpace(l)
		if strings.HasPrefix(t, "number: ") || strings.HasPrefix(t, "identifier: ") || strings.HasPrefix(t, "string: ") ||
			t == "statements" || t == "funccall" || t == "params" || t == "guard" || t == "plus" || t == ":=" && len(lines) > 1 {
			tree++
		}
	}
	if tree > 0 {
		return false
	}
	for _, kw := range []string{":=", "func ", "if ", "for ", "sink ", "import ", "try ", "mutex ", "return", "(", "+", "["} {
		if strings.Contains(s, kw) {
			return true
		}
	}
	return false
}

// randomBytes builds hostile raw inputs of up to 2 KB.
func randomBytes(r *core.Rand, corpus []string) (string, string) {
	n := r.Intn(2049)
	if r.Chance(1, 2) {
		n = r.Intn(65)
	}
	switch mode := r.Intn(6); mode {
	case 0: // uniform bytes
		b := make([]byte, n)
		for i := range b {
			b[i] = byte(r.Intn(256))
		}
		return string(b), "uniform-bytes"
	case 1: // printable ASCII with occasional control/NUL/high bytes
		b := make([]byte, n)
		for i := range b {
			switch {
			case r.Chance(1, 20):
				b[i] = byte(r.Intn(32))
			case r.Chance(1, 30):
				b[i] = byte(128 + r.Intn(128))
			default:
				b[i] = byte(32 + r.Intn(95))
			}
		}
		return string(b), "ascii-noise"
	case 2: // token soup with raw separators incl. control characters
		var sb strings.Builder
		seps := []string{" ", "", "\n", "\t", "\r\n", "\x00", "\x0b", "\x1b", "\u00a0", " ", "\x7f"}
		for sb.Len() < n {
			sb.WriteString(fillers[r.Intn(len(fillers))])
			sb.WriteString(seps[r.Intn(len(seps))])
		}
		return sb.String(), "token-soup"
	case 3, 4: // a valid program with bytes overwritten / inserted
		p := corpus[r.Intn(len(corpus))]
		if len(p) > 2048 {
			o := r.Intn(len(p) - 2048)
			p = p[o : o+2048]
		}
		b := []byte(p)
		k := 1 + r.Intn(4)
		bad := []string{"\x00", "\xff", "\xc3", "\xe2\x82", "\xf0\x9f\x98\x80", "\x1b", "\r", "\x80", "\xed\xa0\x80", "\xc0\xaf", "ü", " ", "\ufeff"}
		for j := 0; j < k && len(b) > 0; j++ {
			pos := r.Intn(len(b))
			ins := bad[r.Intn(len(bad))]
			if r.Bool() {
				b = append(b[:pos], append([]byte(ins), b[pos:]...)...)
			} else {
				b[pos] = ins[0]
			}
		}
		return string(b), "program-with-bad-bytes"
	default: // runs of one structural character (deep nesting / long tokens)
		chars := []string{"(", "[", "{", "-", "not ", "a.", "a(", "\"", "'", "1", "a", "/*", "#", "}", ")", "a[", "{1:", "if a {", "\\", "r'"}
		ch := chars[r.Intn(len(chars))]
		var sb strings.Builder
		for sb.Len()+len(ch) <= n {
			sb.WriteString(ch)
		}
		s := sb.String()
		if r.Bool() {
			s += fillers[r.Intn(len(fillers))]
		}
		return s, "runs"
	}
}
