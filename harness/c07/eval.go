package c07

import (
	"errors"
	"os"
	"regexp"
	"strconv"
	"strings"
	"sync"
	"time"

	"github.com/krotik/common/datautil"
	"github.com/krotik/ecal/engine/pool"
	"github.com/krotik/ecal/parser"
	"github.com/krotik/ecal/util"
)

// stepDebugger bounds an evaluation logically: every runtime component calls
// VisitState before it does anything; after `budget` visits an error is
// returned, which unwinds the evaluation.
type stepDebugger struct {
	steps  int
	budget int
}

var errBudget = errors.New("verification step budget exhausted")

func (d *stepDebugger) HandleInput(input string) (interface{}, error) { return nil, nil }
func (d *stepDebugger) StopThreads(t time.Duration) bool              { return false }
func (d *stepDebugger) BreakOnStart(flag bool)                        {}
func (d *stepDebugger) BreakOnError(flag bool)                        {}
func (d *stepDebugger) SetLockingState(mutexeOwners map[string]uint64, mutexLog *datautil.RingBuffer) {
}
func (d *stepDebugger) SetThreadPool(tp *pool.ThreadPool) {}
func (d *stepDebugger) VisitState(node *parser.ASTNode, vs parser.Scope, tid uint64) util.TraceableRuntimeError {
	d.steps++
	if d.steps > d.budget {
		return util.NewRuntimeError("c07", errBudget, "", node).(util.TraceableRuntimeError)
	}
	return nil
}
func (d *stepDebugger) VisitStepInState(node *parser.ASTNode, vs parser.Scope, tid uint64) util.TraceableRuntimeError {
	return nil
}
func (d *stepDebugger) VisitStepOutState(node *parser.ASTNode, vs parser.Scope, tid uint64, soErr error) util.TraceableRuntimeError {
	return nil
}
func (d *stepDebugger) RecordThreadFinished(tid uint64)                                 {}
func (d *stepDebugger) SetBreakPoint(source string, line int)                           {}
func (d *stepDebugger) DisableBreakPoint(source string, line int)                       {}
func (d *stepDebugger) RemoveBreakPoint(source string, line int)                        {}
func (d *stepDebugger) ExtractValue(threadID uint64, varName, destVarName string) error { return nil }
func (d *stepDebugger) InjectValue(threadID uint64, varName, expression string) error   { return nil }
func (d *stepDebugger) Continue(threadID uint64, contType util.ContType)                {}
func (d *stepDebugger) Status() interface{}                                             { return nil }
func (d *stepDebugger) LockState() interface{}                                          { return nil }
func (d *stepDebugger) Describe(threadID uint64) interface{}                            { return nil }

// ---------------------------------------------------------------------
// classification of a panic raised while evaluating a returned tree: C07
// owns panics caused by the *shape* of the tree (an unchecked access to
// node.Children[i] / child.Token / child.Runtime, a child-count assertion);
// panics caused by run-time *values* (division by zero, list index, hashing,
// comparing …) belong to C06 and are only counted here. The decision looks at
// the panic class and at the source line of the innermost ecal frame.

var frameLoc = regexp.MustCompile(`(?m)^github\.com/krotik/[^\n]*\n\s+(\S+\.go):(\d+)`)

var srcCache sync.Map

func sourceLine(file string, line int) (string, bool) {
	v, ok := srcCache.Load(file)
	if !ok {
		b, err := os.ReadFile(file)
		if err != nil {
			srcCache.Store(file, []string(nil))
			return "", false
		}
		v = strings.Split(string(b), "\n")
		srcCache.Store(file, v)
	}
	lines := v.([]string)
	if line < 1 || line > len(lines) {
		return "", false
	}
	return lines[line-1], true
}

var childIdx = regexp.MustCompile(`Children\[`)
var nodeDeref = regexp.MustCompile(`\.(Runtime|Token|Children|Name|Meta)\b`)
var rtAssert = regexp.MustCompile(`\.Runtime\.\(`)

// structuralPanic returns (structural, decided, source line).
func structuralPanic(msg string) (bool, bool, string) {
	first := msg
	if i := strings.Index(first, "\n"); i >= 0 {
		first = first[:i]
	}
	if strings.Contains(first, "Operation requires") || strings.Contains(first, "has not been validated") {
		return true, true, ""
	}
	m := frameLoc.FindStringSubmatch(msg)
	if m == nil {
		return false, false, ""
	}
	ln, _ := strconv.Atoi(m[2])
	src, ok := sourceLine(m[1], ln)
	if !ok {
		return false, false, ""
	}
	src = strings.TrimSpace(src)
	switch {
	case strings.Contains(first, "index out of range"):
		return childIdx.MatchString(src), true, src
	case strings.Contains(first, "nil pointer dereference"):
		return nodeDeref.MatchString(src), true, src
	case strings.Contains(first, "interface conversion"):
		return rtAssert.MatchString(src), true, src
	}
	return false, true, src
}
