package c07

import (
	"regexp"
	"runtime"
	"strconv"
	"strings"
)

// Goroutine-state monitor. The check process runs with GOMAXPROCS(1): after
// a call returned, a few runtime.Gosched() calls hand the only P to every
// other runnable goroutine until it blocks or exits, so "still alive after
// settle()" is a scheduler state, not a timing observation. The witness of a
// leak is then read from the goroutine dump: a goroutine that did not exist
// before the call, has parser.(*lexer) frames and is in state `chan send`
// (its channel is owned by the parser object that the call has dropped, so
// nobody can ever receive from it).

type ginfo struct {
	id    uint64
	state string
	raw   string
}

var gHead = regexp.MustCompile(`(?m)^goroutine (\d+) \[([^\],]+)[^\]]*\]:$`)

func dumpAll() string {
	buf := make([]byte, 1<<16)
	for {
		n := runtime.Stack(buf, true)
		if n < len(buf) {
			return string(buf[:n])
		}
		buf = make([]byte, 2*len(buf))
	}
}

func goroutines() map[uint64]ginfo {
	res := map[uint64]ginfo{}
	for _, blk := range strings.Split(dumpAll(), "\n\n") {
		blk = strings.TrimSpace(blk)
		m := gHead.FindStringSubmatch(blk)
		if m == nil {
			continue
		}
		id, _ := strconv.ParseUint(m[1], 10, 64)
		res[id] = ginfo{id, m[2], blk}
	}
	return res
}

func settle() int {
	for i := 0; i < 4; i++ {
		runtime.Gosched()
	}
	return runtime.NumGoroutine()
}

var frameRe = regexp.MustCompile(`(?m)^(github\.com/krotik/[^\s(]+(?:\([^)]*\))?[^\s(]*)\(`)

func firstEcalFrame(raw string) string {
	m := frameRe.FindStringSubmatch(raw)
	if m == nil {
		// goroutines are also identified by their creator
		if i := strings.Index(raw, "created by github.com/krotik/"); i >= 0 {
			s := raw[i+len("created by github.com/krotik/"):]
			if j := strings.IndexAny(s, " \n"); j > 0 {
				s = s[:j]
			}
			return "created-by:" + s
		}
		return ""
	}
	return strings.TrimPrefix(m[1], "github.com/krotik/")
}

func isLexer(raw string) bool {
	return strings.Contains(raw, "ecal/parser.(*lexer).") || strings.Contains(raw, "created by github.com/krotik/ecal/parser.Lex")
}
