package c07

import (
	"fmt"

	"github.com/krotik/ecal/parser"
)

// The node-shape table. It is written from the grammar (the nd*/ld* functions
// of parser/parser.go and the node kinds of parser/const.go) and states, per
// node kind, the number of children and the kind class of every child slot
// that the construction code itself produces. It shares no code with the
// parser: it only reads Name / Children / Token of the returned nodes.

// expression kinds: everything a null or left denotation can return.
var exprKinds = map[string]bool{
	parser.NodeSTRING: true, parser.NodeNUMBER: true, parser.NodeIDENTIFIER: true,
	parser.NodeLIST: true, parser.NodeMAP: true,
	parser.NodeGEQ: true, parser.NodeLEQ: true, parser.NodeNEQ: true, parser.NodeEQ: true,
	parser.NodeGT: true, parser.NodeLT: true,
	parser.NodeKVP: true, parser.NodePRESET: true,
	parser.NodePLUS: true, parser.NodeMINUS: true, parser.NodeTIMES: true, parser.NodeDIV: true,
	parser.NodeMODINT: true, parser.NodeDIVINT: true,
	parser.NodeASSIGN: true, parser.NodeLET: true,
	parser.NodeIMPORT: true,
	parser.NodeSINK:   true, parser.NodeKINDMATCH: true, parser.NodeSCOPEMATCH: true,
	parser.NodeSTATEMATCH: true, parser.NodePRIORITY: true, parser.NodeSUPPRESSES: true,
	parser.NodeFUNC: true, parser.NodeRETURN: true,
	parser.NodeAND: true, parser.NodeOR: true, parser.NodeNOT: true,
	parser.NodeLIKE: true, parser.NodeIN: true, parser.NodeHASPREFIX: true,
	parser.NodeHASSUFFIX: true, parser.NodeNOTIN: true,
	parser.NodeTRUE: true, parser.NodeFALSE: true, parser.NodeNULL: true,
	parser.NodeIF:   true,
	parser.NodeLOOP: true, parser.NodeBREAK: true, parser.NodeCONTINUE: true,
	parser.NodeTRY:   true,
	parser.NodeMUTEX: true,
}

// kinds that are only ever built by the parser as parts of other constructs
var partKinds = map[string]bool{
	parser.NodeSTATEMENTS: true, parser.NodeFUNCCALL: true, parser.NodeCOMPACCESS: true,
	parser.NodePARAMS: true, parser.NodeGUARD: true, parser.NodeAS: true,
	parser.NodeEXCEPT: true, parser.NodeOTHERWISE: true, parser.NodeFINALLY: true,
}

// kinds constructed without a lexer token
var tokenlessKinds = map[string]bool{
	parser.NodeSTATEMENTS: true, parser.NodeFUNCCALL: true, parser.NodeCOMPACCESS: true,
	parser.NodePARAMS: true, parser.NodeGUARD: true,
}

var terminals = map[string]bool{
	parser.NodeSTRING: true, parser.NodeNUMBER: true, parser.NodeTRUE: true, parser.NodeFALSE: true,
	parser.NodeNULL: true, parser.NodeBREAK: true, parser.NodeCONTINUE: true,
}

var infix2 = map[string]bool{
	parser.NodeGEQ: true, parser.NodeLEQ: true, parser.NodeNEQ: true, parser.NodeEQ: true,
	parser.NodeGT: true, parser.NodeLT: true, parser.NodeKVP: true, parser.NodePRESET: true,
	parser.NodeTIMES: true, parser.NodeDIV: true, parser.NodeMODINT: true, parser.NodeDIVINT: true,
	parser.NodeASSIGN: true, parser.NodeAND: true, parser.NodeOR: true,
	parser.NodeLIKE: true, parser.NodeIN: true, parser.NodeHASPREFIX: true,
	parser.NodeHASSUFFIX: true, parser.NodeNOTIN: true,
}

var prefix1 = map[string]bool{
	parser.NodeNOT: true, parser.NodeLET: true, parser.NodeKINDMATCH: true, parser.NodeSCOPEMATCH: true,
	parser.NodeSTATEMATCH: true, parser.NodePRIORITY: true, parser.NodeSUPPRESSES: true,
}

type problem struct {
	key  string // finding signature
	what string
	path string
}

type shapeWalk struct {
	probs    []problem
	seen     map[*parser.ASTNode]bool
	nodes    int
	withRT   bool
	kinds    map[string]bool
	maxProbs int
}

func (w *shapeWalk) add(key, what, path string) {
	if len(w.probs) < w.maxProbs {
		w.probs = append(w.probs, problem{key, what, path})
	}
}

func kindOf(n *parser.ASTNode) string {
	if n == nil {
		return "<nil>"
	}
	if n.Name == "" {
		return "<empty>"
	}
	return n.Name
}

// checkShape walks a returned tree. withRT tells whether the tree was built
// with a runtime provider (then every node must carry a runtime component).
func checkShape(root *parser.ASTNode, withRT bool) *shapeWalk {
	w := &shapeWalk{seen: map[*parser.ASTNode]bool{}, withRT: withRT, kinds: map[string]bool{}, maxProbs: 8}
	if root == nil {
		return w
	}
	if !exprKinds[root.Name] && root.Name != parser.NodeSTATEMENTS && partKinds[root.Name] {
		w.add("shape:root:"+kindOf(root), "the root of the tree is neither an expression/statement node nor a statements node", kindOf(root))
	}
	w.node(root, kindOf(root), nil)
	return w
}

func (w *shapeWalk) expr(parent *parser.ASTNode, i int, path string) {
	ch := parent.Children[i]
	if ch == nil {
		return // reported by node()
	}
	if !exprKinds[ch.Name] && !partKinds[ch.Name] {
		return // not a node kind at all: reported once, at the node itself
	}
	if !exprKinds[ch.Name] {
		w.add(fmt.Sprintf("shape:%s:child-not-expression:%s", kindOf(parent), kindOf(ch)),
			fmt.Sprintf("child %d of a %s node must be an expression node, it is %q", i, kindOf(parent), ch.Name), path)
	}
}

func (w *shapeWalk) want(parent *parser.ASTNode, i int, path string, kinds ...string) bool {
	ch := parent.Children[i]
	if ch == nil {
		return false
	}
	for _, k := range kinds {
		if ch.Name == k {
			return true
		}
	}
	if !exprKinds[ch.Name] && !partKinds[ch.Name] {
		return false // not a node kind at all: reported once, at the node itself
	}
	w.add(fmt.Sprintf("shape:%s:child-kind:%s", kindOf(parent), kindOf(ch)),
		fmt.Sprintf("child %d of a %s node must be one of %v, it is %q", i, kindOf(parent), kinds, ch.Name), path)
	return false
}

func (w *shapeWalk) count(n *parser.ASTNode, path string, ok bool, rule string) bool {
	if !ok {
		w.add(fmt.Sprintf("shape:%s:child-count", kindOf(n)),
			fmt.Sprintf("a %s node has %d children, the grammar builds %s", kindOf(n), len(n.Children), rule), path)
	}
	return ok
}

func (w *shapeWalk) node(n *parser.ASTNode, path string, parent *parser.ASTNode) {
	if w.seen[n] {
		w.add("shape:shared-node:"+kindOf(n), "the same node object occurs twice in the tree", path)
		return
	}
	w.seen[n] = true
	w.nodes++
	w.kinds[n.Name] = true
	k := n.Name
	if !exprKinds[k] && !partKinds[k] {
		w.add("shape:unknown-node-kind:"+kindOf(n), fmt.Sprintf("node name %q is not a node kind of parser/const.go", n.Name), path)
	}
	if n.Token == nil {
		elseTrue := k == parser.NodeTRUE && parent != nil && parent.Name == parser.NodeGUARD
		if !tokenlessKinds[k] && !elseTrue {
			w.add("shape:"+kindOf(n)+":nil-token", "node without a lexer token", path)
		}
	}
	if w.withRT && n.Runtime == nil {
		w.add("shape:"+kindOf(n)+":nil-runtime", "node without runtime component although a runtime provider was given", path)
	}
	if !w.withRT && n.Runtime != nil {
		w.add("shape:"+kindOf(n)+":unexpected-runtime", "node with a runtime component although no runtime provider was given", path)
	}
	for i, ch := range n.Children {
		if ch == nil {
			w.add("nil-child:"+kindOf(n), fmt.Sprintf("child %d of a %s node is nil", i, kindOf(n)), path)
		}
	}
	nc := len(n.Children)
	switch {
	case terminals[k]:
		w.count(n, path, nc == 0, "no children")
	case infix2[k]:
		if w.count(n, path, nc == 2, "exactly 2") {
			w.expr(n, 0, path)
			w.expr(n, 1, path)
		}
	case prefix1[k]:
		if w.count(n, path, nc == 1, "exactly 1") {
			w.expr(n, 0, path)
		}
	case k == parser.NodePLUS || k == parser.NodeMINUS:
		if w.count(n, path, nc == 1 || nc == 2, "1 (prefix) or 2 (infix)") {
			for i := range n.Children {
				w.expr(n, i, path)
			}
		}
	case k == parser.NodeIDENTIFIER:
		for i := range n.Children {
			if w.want(n, i, path, parser.NodeIDENTIFIER, parser.NodeFUNCCALL, parser.NodeCOMPACCESS) {
				if n.Children[i].Name == parser.NodeIDENTIFIER && i != nc-1 {
					w.add("shape:identifier:segment-not-last", "an identifier segment is followed by further children of the same parent", path)
				}
			}
		}
	case k == parser.NodeFUNCCALL || k == parser.NodeLIST || k == parser.NodeMAP ||
		k == parser.NodePARAMS || k == parser.NodeSTATEMENTS:
		for i := range n.Children {
			w.expr(n, i, path)
		}
	case k == parser.NodeCOMPACCESS || k == parser.NodeGUARD:
		if w.count(n, path, nc == 1, "exactly 1") {
			w.expr(n, 0, path)
		}
	case k == parser.NodeIMPORT:
		if w.count(n, path, nc == 2, "[string, identifier]") {
			w.want(n, 0, path, parser.NodeSTRING)
			if w.want(n, 1, path, parser.NodeIDENTIFIER) && len(n.Children[1].Children) != 0 {
				w.add("shape:import:identifier-with-children", "the import name has children", path)
			}
		}
	case k == parser.NodeSINK:
		if w.count(n, path, nc >= 2, "[identifier, clause*, statements]") {
			w.want(n, 0, path, parser.NodeIDENTIFIER)
			for i := 1; i < nc-1; i++ {
				w.expr(n, i, path)
			}
			w.want(n, nc-1, path, parser.NodeSTATEMENTS)
		}
	case k == parser.NodeFUNC:
		if w.count(n, path, nc == 2 || nc == 3, "[identifier?, params, statements]") {
			o := 0
			if nc == 3 {
				w.want(n, 0, path, parser.NodeIDENTIFIER)
				o = 1
			}
			w.want(n, o, path, parser.NodePARAMS)
			w.want(n, o+1, path, parser.NodeSTATEMENTS)
		}
	case k == parser.NodeRETURN:
		if w.count(n, path, nc <= 1, "0 or 1") && nc == 1 {
			w.expr(n, 0, path)
		}
	case k == parser.NodeIF:
		if w.count(n, path, nc >= 2 && nc%2 == 0, "guard/statements pairs") {
			for i := 0; i < nc; i += 2 {
				w.want(n, i, path, parser.NodeGUARD)
				w.want(n, i+1, path, parser.NodeSTATEMENTS)
			}
		}
	case k == parser.NodeLOOP:
		if w.count(n, path, nc == 2, "[guard|in, statements]") {
			w.want(n, 0, path, parser.NodeGUARD, parser.NodeIN)
			w.want(n, 1, path, parser.NodeSTATEMENTS)
		}
	case k == parser.NodeTRY:
		if w.count(n, path, nc >= 1, "[statements, except*, otherwise?, finally?]") {
			w.want(n, 0, path, parser.NodeSTATEMENTS)
			stage := 0 // 0 except, 1 otherwise seen, 2 finally seen
			for i := 1; i < nc; i++ {
				ch := n.Children[i]
				if ch == nil {
					continue
				}
				switch {
				case ch.Name == parser.NodeEXCEPT && stage == 0:
				case ch.Name == parser.NodeOTHERWISE && stage == 0:
					stage = 1
				case ch.Name == parser.NodeFINALLY && stage <= 1:
					stage = 2
				default:
					w.add("shape:try:child-order:"+kindOf(ch), fmt.Sprintf("child %d (%s) of a try node is out of the order except*, otherwise?, finally?", i, kindOf(ch)), path)
				}
			}
		}
	case k == parser.NodeEXCEPT:
		if w.count(n, path, nc >= 1, "[string*, (as|identifier)?, statements]") {
			w.want(n, nc-1, path, parser.NodeSTATEMENTS)
			for i := 0; i < nc-1; i++ {
				if i == nc-2 {
					w.want(n, i, path, parser.NodeSTRING, parser.NodeAS, parser.NodeIDENTIFIER)
				} else {
					w.want(n, i, path, parser.NodeSTRING)
				}
			}
		}
	case k == parser.NodeAS:
		if w.count(n, path, nc == 1, "[identifier]") {
			w.want(n, 0, path, parser.NodeIDENTIFIER)
		}
	case k == parser.NodeOTHERWISE || k == parser.NodeFINALLY:
		if w.count(n, path, nc == 1, "[statements]") {
			w.want(n, 0, path, parser.NodeSTATEMENTS)
		}
	case k == parser.NodeMUTEX:
		if w.count(n, path, nc == 2, "[identifier, statements]") {
			w.want(n, 0, path, parser.NodeIDENTIFIER)
			w.want(n, 1, path, parser.NodeSTATEMENTS)
		}
	}
	for i, ch := range n.Children {
		if ch != nil {
			p := path
			if len(p) < 200 {
				p = fmt.Sprintf("%s>%d:%s", path, i, kindOf(ch))
			}
			w.node(ch, p, n)
		}
	}
}

// sexpr renders the kind structure of a tree (bounded) for details/samples.
func sexpr(n *parser.ASTNode, budget *int) string {
	if n == nil {
		return "<nil>"
	}
	if *budget <= 0 {
		return "…"
	}
	*budget--
	s := kindOf(n)
	if len(n.Children) == 0 {
		return s
	}
	s = "(" + s
	for _, ch := range n.Children {
		s += " " + sexpr(ch, budget)
	}
	return s + ")"
}
