// Package c07 holds the runtime monitors for property C07: parsing is total —
// an error or a well-formed tree, and nothing left running (DESIGN.md section 4).
package c07

import (
	"fmt"
	"os"
	"runtime"
	"sort"
	"strings"

	"github.com/krotik/ecal/interpreter"
	"github.com/krotik/ecal/parser"
	"github.com/krotik/ecal/scope"
	"github.com/krotik/ecal/util"

	"verif/harness/core"
)

func init() { core.Register("C07", Run) }

const srcName = "c07src"
const evalBudget = 3000

type monitor struct {
	c        *core.Ctx
	erp      *interpreter.ECALRuntimeProvider
	dbg      *stepDebugger
	erpUses  int
	expected int            // goroutines expected to exist (baseline + leaks seen so far)
	quota    map[string]int // goroutine dumps left per leak class
	counts   map[string]int64
	emitted  map[string]int // violation records written per key
	slot     int
}

func newMonitor(c *core.Ctx) *monitor {
	m := &monitor{c: c, counts: map[string]int64{}, emitted: map[string]int{},
		quota: map[string]int{"after-error": 6, "after-tree": 6, "after-panic": 6}}
	m.dbg = &stepDebugger{budget: evalBudget}
	m.newERP()
	return m
}

func (m *monitor) newERP() {
	n0 := runtime.NumGoroutine()
	erp := interpreter.NewECALRuntimeProvider(srcName, &util.MemoryImportLocator{Files: map[string]string{}}, util.NewNullLogger())
	// The cron goroutine is not needed (the trigger built-ins are removed) and
	// must not be confused with goroutines created by a parse. Cron.Stop is
	// never called synchronously: krotik/common's Stop can deadlock with the
	// cron goroutine's tick. If that ever happens the two goroutines simply
	// stay part of the baseline.
	go erp.Cron.Stop()
	for i := 0; i < 2000 && runtime.NumGoroutine() > n0; i++ {
		runtime.Gosched()
	}
	erp.Debugger = m.dbg
	m.erp = erp
	m.erpUses = 0
	m.expected = settle()
}

func (m *monitor) ev(name string) { m.counts[name]++ }

func (m *monitor) flush() {
	for k, v := range m.counts {
		m.c.Event(k, v)
	}
}

func trunc(s string, n int) string {
	if len(s) > n {
		return s[:n] + fmt.Sprintf("…(%d bytes)", len(s))
	}
	return s
}

func (m *monitor) violation(key, what, stream string, idx int, src string, extra map[string]interface{}) {
	m.counts["violation:"+key]++
	if m.emitted[key] >= 4 {
		return
	}
	m.emitted[key]++
	d := map[string]interface{}{"input": trunc(src, 1500), "input_quoted": fmt.Sprintf("%q", trunc(src, 600))}
	for k, v := range extra {
		d[k] = v
	}
	m.c.Violation(key, what, stream, idx, d)
}

var knownErrTypes = map[error]string{
	parser.ErrUnexpectedEnd:            "Unexpected end",
	parser.ErrLexicalError:             "Lexical error",
	parser.ErrUnknownToken:             "Unknown term",
	parser.ErrImpossibleNullDenotation: "Term cannot start an expression",
	parser.ErrImpossibleLeftDenotation: "Term can only start an expression",
	parser.ErrUnexpectedToken:          "Unexpected term",
}

var modes = []string{"Parse", "ParseWithRuntime"}

// check runs one input through both entry points and applies all oracles.
func (m *monitor) check(stream string, idx int, src string) {
	for mode := 0; mode < 2; mode++ {
		m.one(stream, idx, src, mode)
	}
}

func (m *monitor) parse(src string, mode int) (tree *parser.ASTNode, err error, key, msg string, panicked bool) {
	key, msg, panicked = core.Guard(func() {
		if mode == 0 {
			tree, err = parser.Parse(srcName, src)
		} else {
			tree, err = parser.ParseWithRuntime(srcName, src, m.erp)
		}
	})
	return
}

func (m *monitor) one(stream string, idx int, src string, mode int) {
	if mode == 1 {
		m.erpUses++
		if m.erpUses > 20000 {
			m.newERP()
		}
	}
	tree, err, pkey, pmsg, panicked := m.parse(src, mode)
	n := settle()
	class := "after-tree"
	switch {
	case panicked:
		class = "after-panic"
	case err != nil:
		class = "after-error"
	}
	m.ev("call." + modes[mode])
	m.leakCheck(n, class, stream, idx, src, mode)
	extra := map[string]interface{}{"entry": modes[mode]}
	if panicked {
		m.ev("parse.panic")
		extra["panic"] = trunc(pmsg, 2500)
		m.violation(pkey, "panic inside "+modes[mode], stream, idx, src, extra)
		return
	}
	if err != nil {
		m.checkError(err, tree, stream, idx, src, extra)
	}
	switch {
	case tree != nil && err != nil:
		m.ev("parse.tree-and-error")
		b := 60
		extra["error"] = err.Error()
		extra["tree"] = sexpr(tree, &b)
		w := checkShape(tree, mode == 1)
		if len(w.probs) > 0 {
			extra["tree_problem"] = w.probs[0].key
		}
		m.violation("tree-and-error", modes[mode]+" returned a tree together with an error", stream, idx, src, extra)
		return
	case tree == nil && err == nil:
		m.ev("parse.nothing")
		m.violation("no-tree-no-error", modes[mode]+" returned neither a tree nor an error", stream, idx, src, extra)
		return
	case err != nil:
		return
	}
	m.ev("parse.tree")
	if bal, app, why := bracketsBalanced(src); app {
		m.ev("accepted.bracket-balance-checked")
		if !bal {
			b := 60
			e := copyMap(extra)
			e["tree"] = sexpr(tree, &b)
			e["brackets"] = why
			m.violation("accepted-unbalanced-brackets", modes[mode]+" accepted a text whose brackets are not properly nested (an error was swallowed): "+why, stream, idx, src, e)
		}
	}
	m.ev("parse.tree.by-stream:" + strings.TrimRight(strings.SplitN(stream, "-", 2)[0], "0123456789"))
	m.walk(tree, stream, idx, src, mode, extra)
}

func (m *monitor) checkError(err error, tree *parser.ASTNode, stream string, idx int, src string, extra map[string]interface{}) {
	pe, ok := err.(*parser.Error)
	if !ok || pe == nil {
		m.violation(fmt.Sprintf("error-not-positioned:%T", err), "the returned error is not a *parser.Error", stream, idx, src,
			map[string]interface{}{"error": fmt.Sprint(err), "entry": extra["entry"]})
		return
	}
	tname, known := knownErrTypes[pe.Type]
	if !known {
		tname = fmt.Sprint(pe.Type)
	}
	m.ev("parse.error:" + tname)
	d := map[string]interface{}{"error": pe.Error(), "line": pe.Line, "pos": pe.Pos, "entry": extra["entry"]}
	if pe.Source != srcName {
		m.violation("error-source", "the error does not name the source given to the parser", stream, idx, src, d)
	}
	if pe.Type == nil {
		m.violation("error-type-nil", "the error has no type", stream, idx, src, d)
	}
	lines := 1 + strings.Count(src, "\n")
	switch {
	case pe.Line == 0 && pe.Pos == 0 && pe.Type == parser.ErrUnexpectedEnd:
		// the code's own convention for "input ended": an error without a
		// position (the error text then carries no Line/Pos either)
		m.ev("parse.error.unpositioned-end-of-input")
	case pe.Type == parser.ErrUnexpectedEnd && pe.Line >= 1 && pe.Line <= lines:
		// end of input reported at the EOF token: the lexer stamps that token
		// with the start offset of the previous token, so its column is not
		// meaningful (it can even be <= 0 after a trailing newline). The rule
		// is calibrated not to demand more than this convention; EOF has no
		// first character (see C18).
		if pe.Pos < 1 {
			m.ev("parse.error.end-of-input-with-nonpositive-column")
		}
	case pe.Line < 1 || pe.Line > lines || pe.Pos < 1:
		d["lines_in_input"] = lines
		m.violation("error-position:"+tname, "the error carries no position inside the input", stream, idx, src, d)
	}
	m.c.NontrivialKey(fmt.Sprintf("err|%s|%d|%d", tname, pe.Line, pe.Pos))
}

// walk applies the shape table and runs the tree consumers.
func (m *monitor) walk(tree *parser.ASTNode, stream string, idx int, src string, mode int, extra map[string]interface{}) {
	w := checkShape(tree, mode == 1)
	m.counts["walk.nodes"] += int64(w.nodes)
	if w.nodes >= 2 {
		m.c.Nontrivial(core.Hash64("tree|" + src))
	}
	b := 80
	tr := sexpr(tree, &b)
	if idx%997 == 3 && mode == 0 {
		m.c.Sample(stream+"-tree", map[string]interface{}{"input": trunc(src, 300), "tree": tr})
	}
	structural := len(w.probs) > 0
	cons := map[string]interface{}{}
	// consumers (guarded)
	if mode == 0 {
		k, msg, p := core.Guard(func() {
			_, err := parser.PrettyPrint(tree)
			if err != nil {
				m.ev("walk.prettyprint.error")
			} else {
				m.ev("walk.prettyprint.ok")
			}
		})
		if p {
			m.ev("walk.prettyprint.panic")
			if structural {
				cons["PrettyPrint"] = k
			} else {
				e := copyMap(extra)
				e["tree"] = tr
				e["panic"] = trunc(msg, 2500)
				m.violation(k, "PrettyPrint of a returned tree panics", stream, idx, src, e)
			}
		}
	} else {
		var verr error
		k, msg, p := core.Guard(func() { verr = tree.Runtime.Validate() })
		switch {
		case p:
			m.ev("walk.validate.panic")
			if structural {
				cons["Validate"] = k
			} else {
				e := copyMap(extra)
				e["tree"] = tr
				e["panic"] = trunc(msg, 2500)
				m.violation(k, "Validate of a returned tree panics", stream, idx, src, e)
			}
		case verr != nil:
			m.ev("walk.validate.error")
		default:
			m.ev("walk.validate.ok")
			m.eval(tree, tr, structural, cons, stream, idx, src, extra)
		}
		if w.kinds[parser.NodeSINK] || w.kinds[parser.NodeMUTEX] {
			m.newERP() // rules and mutexes registered by the evaluation
		}
	}
	// shape problems, each with the consequences seen in the consumers
	seen := map[string]bool{}
	for _, p := range w.probs {
		if seen[p.key] {
			continue
		}
		seen[p.key] = true
		e := copyMap(extra)
		e["tree"] = tr
		e["path"] = p.path
		if len(cons) > 0 {
			e["consequence"] = cons
		}
		m.violation(p.key, "ill-formed tree: "+p.what, stream, idx, src, e)
	}
}

func copyMap(m map[string]interface{}) map[string]interface{} {
	r := map[string]interface{}{}
	for k, v := range m {
		r[k] = v
	}
	return r
}

func (m *monitor) eval(tree *parser.ASTNode, tr string, structural bool, cons map[string]interface{}, stream string, idx int, src string, extra map[string]interface{}) {
	m.dbg.steps = 0
	var eerr error
	k, msg, p := core.Guard(func() {
		vs := scope.NewScope(scope.GlobalScope)
		_, eerr = tree.Runtime.Eval(vs, make(map[string]interface{}), m.erp.NewThreadID())
	})
	n := settle()
	if n != m.expected {
		// an evaluation that started something (it should not: the event and
		// trigger built-ins are removed) must not disturb the leak baseline
		m.ev("eval.goroutine-count-changed")
		m.expected = n
	}
	switch {
	case p:
		st, decided, line := structuralPanic(msg)
		switch {
		case !decided:
			m.ev("eval.panic.undecided")
			m.c.Inconclusive("panic during evaluation of a returned tree could not be classified (source of the frame not readable)", stream, idx,
				map[string]interface{}{"input": trunc(src, 600), "panic": trunc(msg, 1500)})
		case st && structural:
			cons["Eval"] = k
		case st:
			m.ev("eval.panic.structural")
			e := copyMap(extra)
			e["tree"] = tr
			e["panic"] = trunc(msg, 2500)
			e["source_line"] = line
			m.violation(k, "evaluation of a returned, validated tree panics on the tree's structure", stream, idx, src, e)
		default:
			m.ev("eval.panic.value-level(ignored,C06):" + k)
		}
	case eerr != nil:
		if m.dbg.steps > m.dbg.budget {
			m.ev("walk.eval.budget")
		} else {
			m.ev("walk.eval.error")
		}
	default:
		m.ev("walk.eval.ok")
	}
}

// ---------------------------------------------------------------------

func (m *monitor) leakCheck(n int, class, stream string, idx int, src string, mode int) {
	if n < m.expected {
		m.expected = n
		return
	}
	if n == m.expected {
		return
	}
	m.ev("leak.goroutines-alive-after-call:" + class)
	if m.quota[class] <= 0 {
		m.counts["leak.unattributed:"+class] += int64(n - m.expected)
		m.expected = n
		return
	}
	m.quota[class]--
	// confirmation run with goroutine dumps around it
	before := goroutines()
	m.parse(src, mode)
	settle()
	after := goroutines()
	var fresh []ginfo
	for id, g := range after {
		if _, ok := before[id]; !ok {
			fresh = append(fresh, g)
		}
	}
	for try := 0; try < 200; try++ {
		busy := false
		for _, g := range fresh {
			if g.state == "running" || g.state == "runnable" {
				busy = true
			}
		}
		if !busy {
			break
		}
		settle()
		cur := goroutines()
		var nf []ginfo
		for _, g := range fresh {
			if c, ok := cur[g.id]; ok {
				nf = append(nf, c)
			}
		}
		fresh = nf
	}
	if len(fresh) == 0 {
		m.c.Inconclusive("goroutine count stayed elevated after the call but a re-run under goroutine dumps showed no surviving goroutine", stream, idx,
			map[string]interface{}{"input": trunc(src, 600), "entry": modes[mode]})
	}
	for _, g := range fresh {
		var key, what string
		switch {
		case g.state == "running" || g.state == "runnable":
			m.c.Inconclusive("a goroutine created by the call was still running after 200 scheduler rounds", stream, idx,
				map[string]interface{}{"input": trunc(src, 600), "goroutine": trunc(g.raw, 1200)})
			continue
		case isLexer(g.raw) && g.state == "chan send":
			key = "leak:lexer-chan-send"
			if class != "after-error" {
				key += ":" + class
			}
			what = "the lexer goroutine of the call is blocked forever in `chan send` (its channel died with the parser object)"
		case isLexer(g.raw):
			key = "leak:lexer-" + g.state + ":" + class
			what = "the lexer goroutine of the call is still alive in state " + g.state
		default:
			key = "leak:goroutine:" + firstEcalFrame(g.raw) + ":" + g.state
			what = "a goroutine created by the call is still alive in state " + g.state
		}
		m.violation(key, what+" after "+modes[mode]+" returned ("+class+")", stream, idx, src,
			map[string]interface{}{"entry": modes[mode], "goroutine": trunc(g.raw, 1500)})
	}
	m.expected = runtime.NumGoroutine()
}

// census counts, once at the end of the batch, the goroutines that sit in the
// witness state (grouped by the pprof-style stack they are blocked in).
func (m *monitor) census() {
	if runtime.NumGoroutine() > 400000 {
		m.counts["leak.census.skipped"]++
		return
	}
	nl := 0
	for _, g := range goroutines() {
		if isLexer(g.raw) && g.state == "chan send" {
			nl++
		}
	}
	m.counts["leak.census.lexer-goroutines-in-chan-send"] += int64(nl)
}

// ---------------------------------------------------------------------

func repoDir() string {
	if d := os.Getenv("VERIF_REPO"); d != "" {
		return d
	}
	return "/repo"
}

// Run is the check.
func Run(c *core.Ctx) {
	runtime.GOMAXPROCS(1)
	// built-ins that sleep, start the event processor or register timers are
	// taken out of the interpreter's function table for the bounded Eval
	for _, f := range []string{"sleep", "addEvent", "addEventAndWait", "setCronTrigger", "setPulseTrigger"} {
		delete(interpreter.InbuildFuncMap, f)
	}
	c.Note("rule", fmt.Sprintf("every input goes through parser.Parse and parser.ParseWithRuntime(ECALRuntimeProvider). "+
		"enum-L<n>: ALL sequences of n entries (n<=4 quick, <=5 thorough) over a %d-entry alphabet of tokens and block-opening fragments %q joined by one space (case idx = prefix of n-1 entries, one input per alphabet entry per case); "+
		"mut: 1..3 token-level mutations (delete, duplicate, swap, drop/insert/replace bracket, stray ; } ) inside blocks, replace/insert random token, truncate, relayout newline) of seed programs = own templates + /repo/examples/**/*.ecal + raw string literals of /repo *_test.go that look like source (lexical filter; math.* users left out); "+
		"bytes: random inputs <=2048 bytes (uniform bytes, ASCII noise with control/NUL/high bytes, token soup with control separators, programs with invalid UTF-8/NUL/BOM injected, long runs of one structural character). "+
		"Oracles: exactly one of (tree,error); an accepted text has properly nested brackets outside strings/comments (judged by an own chunker, only for texts without backslash/control/non-ASCII bytes); error is *parser.Error naming the source with Line>=1,Pos>=1 inside the input (the code's own end-of-input convention Line=Pos=0 with type 'Unexpected end' is accepted); shape table per node kind; Validate/PrettyPrint panics; Eval (<=%d steps via counting debugger) panics on node structure; goroutines alive after the call (GOMAXPROCS=1 + Gosched settle, witness from goroutine dump). "+
		"distinct_nontrivial = distinct inputs whose returned tree has >=2 nodes (walked by the shape table and consumers) + distinct (error type, line, pos) signatures", len(alphabet), alphabet, evalBudget))
	c.Note("exhaustive", "true")
	m := newMonitor(c)
	corpus, counts := loadCorpus(repoDir())
	for k, v := range counts {
		c.Note("corpus."+k, fmt.Sprint(v))
	}

	// (a) exhaustive token/fragment sequences
	maxLen := c.Pick(4, 5)
	A := len(alphabet)
	if c.Take("enum-L0", 0) {
		c.Begin(0, "enum-L0", 0, "")
		m.check("enum-L0", 0, "")
		c.End(0)
	}
	for n := 1; n <= maxLen; n++ {
		stream := fmt.Sprintf("enum-L%d", n)
		prefixes := 1
		for k := 1; k < n; k++ {
			prefixes *= A
		}
		for p := 0; p < prefixes; p++ {
			if !c.Take(stream, p) {
				continue
			}
			seq := append(seqFromIndex(p, n-1), 0)
			c.Begin(0, stream, p, joinSeq(seq[:n-1])+" <each alphabet entry>")
			for t := 0; t < A; t++ {
				seq[n-1] = t
				m.check(stream, p, joinSeq(seq))
			}
			c.AddEvals(A - 1)
		}
	}
	c.End(0)

	// (b) mutations of valid programs
	nm := c.Pick(40000, 600000)
	for i := 0; i < nm; i++ {
		if !c.Take("mut", i) {
			continue
		}
		r := c.Rng("mut", i)
		seed := corpus[r.Intn(len(corpus))]
		if r.Chance(1, 3) { // own templates get a third of the cases
			seed = templates[r.Intn(len(templates))]
		}
		src, ops := mutate(r, seed)
		c.Begin(0, "mut", i, src)
		m.ev("mut.op:" + strings.Join(ops, "+"))
		m.check("mut", i, src)
		if i%4001 == 0 {
			c.Sample("mut", map[string]interface{}{"ops": ops, "input": trunc(src, 300)})
		}
	}
	c.End(0)
	// the unmutated seeds themselves (they must parse to well-formed trees or fail cleanly)
	for i, s := range corpus {
		if !c.Take("seed", i) {
			continue
		}
		c.Begin(0, "seed", i, s)
		m.check("seed", i, s)
	}
	c.End(0)

	// (c) random bytes
	nb := c.Pick(30000, 500000)
	for i := 0; i < nb; i++ {
		if !c.Take("bytes", i) {
			continue
		}
		r := c.Rng("bytes", i)
		src, kind := randomBytes(r, corpus)
		c.Begin(0, "bytes", i, src)
		m.ev("bytes.kind:" + kind)
		m.check("bytes", i, src)
		if i%5003 == 0 {
			c.Sample("bytes", map[string]interface{}{"kind": kind, "input_quoted": fmt.Sprintf("%q", trunc(src, 200))})
		}
	}
	c.End(0)
	m.census()
	// compact the many mutation-operator counters
	var opKeys []string
	for k := range m.counts {
		if strings.HasPrefix(k, "mut.op:") && strings.Contains(k, "+") {
			opKeys = append(opKeys, k)
		}
	}
	sort.Strings(opKeys)
	for _, k := range opKeys {
		m.counts["mut.op:combined"] += m.counts[k]
		delete(m.counts, k)
	}
	m.flush()
}
