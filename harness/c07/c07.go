// Package c07 holds the runtime monitors for property C07 (see DESIGN.md section 4).
package c07

import "verif/harness/core"

func init() { core.Register("C07", Run) }

// Run is the check.
func Run(c *core.Ctx) {
}
