module verif/harness

go 1.23

require (
	github.com/anishathalye/porcupine v1.3.0
	github.com/krotik/common v1.4.4
	github.com/krotik/ecal v0.0.0
)

replace github.com/krotik/ecal => /repo
