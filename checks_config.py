# Per-property driver configuration (see ./check). variants: which binaries to
# run (normal / -race), into how many child processes the fixed case list is
# split, and the per-child stop-waiting bound (seconds; never a verdict).
Q = {"quick": 600, "thorough": 3300}

CHECKS = {
    "C17": {
        "variants": [{"name": "normal", "nbatch": 16, "timeout": Q}],
        "level": "exploration",
        "assumptions": [
            "lexical containment is judged by an independent segment-stack resolver (no symlinks are created in the sandbox tree)",
            "an error is always an acceptable answer (the statement allows it)",
        ],
    },
}
