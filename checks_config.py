"""Per-property driver configuration, one JSON file per claimed property in
cfg/<ID>.json:
  variants:   list of {name, race(bool), nbatch (int or {quick,thorough}),
              timeout {quick,thorough} seconds (stop-waiting bound per child,
              never a verdict), parallel (max children at once), env,
              thorough_only}
  race_rule:  regex on the innermost non-runtime frame of a race report that
              makes the report a violation of this property (else recorded only)
  race_rule_needs: optional regex that must also match inside one of the two
              access stacks (e.g. runtime\\.map for concurrent map access, the
              process-fatal kind of race)
  hang_is_violation: whether a re-confirmed non-terminating case with a running
              ecal goroutine is a violation (default true)
  level, assumptions, technique, level_text, level_note: manifest/evidence texts
"""
import json, os, glob

_D = os.path.join(os.path.dirname(os.path.abspath(__file__)), "cfg")
DEFAULT_TIMEOUT = {"quick": 600, "thorough": 3300}
CHECKS = {}
for _f in sorted(glob.glob(os.path.join(_D, "C*.json"))):
    _c = json.load(open(_f))
    for _v in _c["variants"]:
        _v.setdefault("timeout", DEFAULT_TIMEOUT)
    CHECKS[os.path.basename(_f)[:-5]] = _c
