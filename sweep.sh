#!/bin/bash
# usage: sweep.sh <tier> <seed> [ids...]   — runs checks one after another, prints one line each
tier=${1:-quick}; seed=${2:-1}; shift 2
ids="$@"; [ -z "$ids" ] && ids="C01 C02 C03 C04 C05 C06 C07 C08 C09 C10 C11 C12 C13 C14 C15 C16 C17 C18 C19 C20"
cd "$(dirname "$0")"; mkdir -p .work
for p in $ids; do
  t0=$(date +%s)
  VERIF_SEED=$seed ./check $p --tier $tier > .work/sweep-$p-$tier-$seed.out 2>&1; rc=$?
  t1=$(date +%s)
  echo "$p tier=$tier seed=$seed rc=$rc wall=$((t1-t0))s viol=$(grep -c '^VIOLATION' .work/sweep-$p-$tier-$seed.out) known=$(grep -c '^KNOWN-FINDING' .work/sweep-$p-$tier-$seed.out) broken=$(grep -c '^BROKEN' .work/sweep-$p-$tier-$seed.out) $(grep -o '[0-9]* inconclusive' .work/sweep-$p-$tier-$seed.out | head -1)"
done
