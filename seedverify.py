#!/usr/bin/env python3
"""Verifies a seeded change delivered by a mutation agent and runs the checks
against it (on a scratch worktree, never on /repo):
  seedverify.py <outdir/mN> <seed id> <check id> [<more check ids>]
Confirms: demo passes without the patch, fails with it, repo suite green with
it; then runs ./check <ID> --no-evidence with VERIF_REPO=<worktree> and records
whether an unlisted VIOLATION was reported. Result goes to
/verif/seeded/<seed id>/ (patch.diff, demo, meta.json)."""
import sys, os, json, subprocess, shutil, time
src, sid, checks = sys.argv[1], sys.argv[2], sys.argv[3:]
ENV = dict(os.environ, GOFLAGS="-mod=mod", GOPROXY="off", GOSUMDB="off", GOTOOLCHAIN="local")
wt = "/tmp/mainscratch/sv-" + sid
def sh(cmd, cwd=None, timeout=900, env=ENV):
    try:
        p = subprocess.run(cmd, shell=True, cwd=cwd, env=env, stdout=subprocess.PIPE, stderr=subprocess.STDOUT, text=True, timeout=timeout)
        return p.returncode, p.stdout
    except subprocess.TimeoutExpired as e:
        return 124, (e.stdout or b"").decode(errors="replace") if isinstance(e.stdout, bytes) else (e.stdout or "")
subprocess.run("git -C /repo worktree remove --force %s 2>/dev/null; rm -rf %s" % (wt, wt), shell=True)
rc, out = sh("git -C /repo worktree add -q --detach %s HEAD" % wt)
meta = json.load(open(os.path.join(src, "meta.json")))
demo = meta["demo"]
demofile = os.path.join(src, os.path.basename(demo["file"]))
ddir = os.path.join(wt, demo["dir"])
os.makedirs(ddir, exist_ok=True)
shutil.copy(demofile, ddir)
run = demo["run"]
res = {"seed": sid, "property": meta.get("property"), "summary": meta.get("summary"),
       "needs": meta.get("what_it_needs_to_manifest"), "files_touched": meta.get("files_touched"),
       "repo_head": subprocess.run("git -C /repo rev-parse --short HEAD", shell=True, capture_output=True, text=True).stdout.strip(),
       "ran": []}
rc0, o0 = sh(run, cwd=wt, timeout=650)
res["demo_passes_without_patch"] = rc0 == 0
res["ran"].append({"cmd": run + " (without patch)", "rc": rc0})
rca, oa = sh("git apply %s" % os.path.join(os.path.abspath(src), "patch.diff"), cwd=wt)
res["patch_applies"] = rca == 0
rc1, o1 = sh(run, cwd=wt, timeout=650)
res["demo_fails_with_patch"] = rc1 != 0
res["ran"].append({"cmd": run + " (with patch)", "rc": rc1, "tail": o1[-600:]})
os.remove(os.path.join(ddir, os.path.basename(demofile)))
green = False
for attempt in range(3):
    rcs, os_ = sh("timeout 600 go test -vet=off -count=1 ./...", cwd=wt, timeout=700)
    if rcs == 0:
        green = True
        break
res["suite_green_with_patch"] = green
res["ran"].append({"cmd": "go test -vet=off -count=1 ./... (with patch)", "rc": rcs, "attempts": attempt + 1, "tail": "" if green else os_[-800:]})
res["checks"] = {}
for cid in checks:
    t0 = time.time()
    rcc, oc = sh("./check %s --no-evidence" % cid, cwd="/verif", timeout=3000, env=dict(ENV, VERIF_REPO=wt))
    keys = [l.strip() for l in oc.splitlines() if l.strip().startswith("what:")]
    res["checks"][cid] = {"rc": rcc, "detected": rcc == 1 and "VIOLATION property=" in oc, "violations": keys[:6], "wall_s": round(time.time() - t0, 1)}
    shutil.rmtree("/verif/replays/" + cid, ignore_errors=True)
dst = "/verif/seeded/" + sid
os.makedirs(dst, exist_ok=True)
shutil.copy(os.path.join(src, "patch.diff"), dst)
shutil.copy(demofile, dst)
res["demo"] = demo
json.dump(res, open(os.path.join(dst, "meta.json"), "w"), indent=1)
import hashlib
subprocess.run("git -C /repo worktree remove --force %s; rm -rf /verif/.work/alt-%s" % (wt, hashlib.sha1(os.path.abspath(wt).encode()).hexdigest()[:10]), shell=True)
ok = res["demo_passes_without_patch"] and res["demo_fails_with_patch"] and green and res["patch_applies"]
print(sid, "valid" if ok else "INVALID", {c: v["detected"] for c, v in res["checks"].items()}, [v["violations"][:1] for v in res["checks"].values()])
