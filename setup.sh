#!/bin/sh
# Builds the harness binaries from files on disk only (offline).
set -e
cd "$(dirname "$0")/harness"
export GOFLAGS=-mod=mod GOPROXY=off GOSUMDB=off GOTOOLCHAIN=local
mkdir -p ../bin
go build -tags verif -o ../bin/vh ./cmd/vh
go build -tags verif -race -o ../bin/vh-race ./cmd/vh
echo setup ok
