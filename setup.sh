#!/bin/sh
# Builds the harness binaries from files on disk only (offline).
set -e
cd "$(dirname "$0")/harness"
export GOFLAGS=-mod=mod GOPROXY=off GOSUMDB=off GOTOOLCHAIN=local
mkdir -p ../bin
# warm the build cache for both variants (the driver links one binary per property and run)
go build -tags verif -o ../bin/ ./cmd/...
go build -tags verif -race -o ../bin/race/ ./cmd/...
rm -rf ../bin/race ../bin/c[0-9][0-9]
# the real Go plugin of C19 (needs cgo; the driver rebuilds it next to every binary)
go build -tags verif -buildmode=plugin -o ../bin/c19plugin-warm.so ./c19plugin || echo "note: plugin build not available"
rm -f ../bin/c19plugin-warm.so
echo setup ok
