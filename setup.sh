#!/bin/sh
# Builds the harness binaries from files on disk only (offline).
set -e
cd "$(dirname "$0")/harness"
export GOFLAGS=-mod=mod GOPROXY=off GOSUMDB=off GOTOOLCHAIN=local
mkdir -p ../bin
# warm the build cache for both variants (the driver links one binary per property and run)
go build -tags verif -o ../bin/ ./cmd/...
go build -tags verif -race -o ../bin/race/ ./cmd/...
rm -rf ../bin/race ../bin/c[0-9][0-9]
echo setup ok
