#!/usr/bin/env python3
"""Prints the table of seeded changes (from seeded/*/meta.json) for DESIGN.md."""
import json, glob, os, re
rows = []
for f in sorted(glob.glob(os.path.join(os.path.dirname(os.path.abspath(__file__)), "seeded", "*", "meta.json"))):
    m = json.load(open(f))
    sid = m["seed"]
    valid = m.get("demo_passes_without_patch") and m.get("demo_fails_with_patch") and m.get("suite_green_with_patch") and m.get("patch_applies")
    det = []
    for cid, v in sorted(m.get("checks", {}).items()):
        keys = []
        for w in v.get("violations", [])[:2]:
            k = re.search(r"\(key=([^,]+),", w)
            if k:
                keys.append(k.group(1))
        det.append("%s: %s" % (cid, ("`" + "`, `".join(keys) + "`") if v.get("detected") else "missed"))
    summ = (m.get("summary") or "").replace("|", "\\|").replace("\n", " ")
    if len(summ) > 260:
        summ = summ[:257] + "..."
    rows.append("| %s | %s | %s | %s | %s |" % (sid, m.get("property"), ", ".join(m.get("files_touched") or []), summ, "; ".join(det) if valid else "INVALID seed"))
print("| seed | prop | files | change | detected by (finding keys) |")
print("|---|---|---|---|---|")
print("\n".join(rows))
