#!/usr/bin/env python3
"""Writes MANIFEST.json from checks_config.py + manifest_texts.py (so that the
manifest always lists exactly the checks the driver knows)."""
import json, os, subprocess, sys
sys.path.insert(0, os.path.dirname(os.path.abspath(__file__)))
from checks_config import CHECKS
from manifest_texts import NOT_APPLICABLE, HOOK_COMMITS

props = [json.loads(l)["id"] for l in open("properties.jsonl")]
checks = []
for pid in props:
    if pid not in CHECKS:
        continue
    t = CHECKS[pid]
    checks.append({
        "property_id": pid,
        "quick_cmd": "./check %s --tier quick" % pid,
        "thorough_cmd": "./check %s --tier thorough" % pid,
        "evidence_file": "/verif/evidence/%s.json" % pid,
        "replay_cmd_template": "./check %s --replay {path}" % pid,
        "engine": "vh",
        "level_claimed": {"category": CHECKS[pid].get("level", "exploration"), "text": t["level_text"], "design_ref": "DESIGN.md section 4, " + pid},
        "level_note": t["level_note"],
        "technique": t["technique"],
    })
na = [{"property_id": p, "reason": NOT_APPLICABLE.get(p, "check not built yet (work in progress)")} for p in props if p not in CHECKS]
m = {
    "version": 1,
    "setup_cmd": "./setup.sh",
    "hooks": {
        "guard": "verif",
        "enable": "go build -tags verif (harness module /verif/harness replaces github.com/krotik/ecal => /repo, so every check rebuilds from /repo's working tree)",
        "baseline_off_cmd": "cd /repo && GOFLAGS=-mod=mod GOPROXY=off GOSUMDB=off go test -vet=off -count=1 ./...",
        "source_commits": HOOK_COMMITS,
        "add_only": True,
    },
    "engines": [{"name": "vh", "path": "/verif/harness", "serves_properties": [c["property_id"] for c in checks],
                 "kind_free_text": "Go harness (one sub-command per property) driven by /verif/check: child processes per batch, hook trace + monitors + reference models, race detector builds, porcupine, strace"}],
    "checks": checks,
    "not_applicable": na,
    "notes": "Runtime monitoring only. Known findings: /verif/known_findings.json. Seeded mutations: /verif/seeded/.",
}
json.dump(m, open("MANIFEST.json", "w"), indent=1)
print("claimed:", [c["property_id"] for c in checks], "unclaimed:", [x["property_id"] for x in na])
