#!/usr/bin/env python3
"""Re-runs, for one stored seed, the checks that are recorded as detecting it
against the CURRENT /repo HEAD + patch and the CURRENT harness (regression of
the detection itself):  seedrecheck.py <seed id>
Records the outcome under "recheck" in /verif/seeded/<seed id>/meta.json."""
import sys, os, json, subprocess, shutil, time, hashlib
sid = sys.argv[1]
ENV = dict(os.environ, GOFLAGS="-mod=mod", GOPROXY="off", GOSUMDB="off", GOTOOLCHAIN="local")
d = "/verif/seeded/" + sid
meta = json.load(open(os.path.join(d, "meta.json")))
wt = "/tmp/mainscratch/rc-" + sid
subprocess.run("git -C /repo worktree remove --force %s 2>/dev/null; rm -rf %s" % (wt, wt), shell=True)
subprocess.run("git -C /repo worktree add -q --detach %s HEAD" % wt, shell=True, check=True)
head = subprocess.run("git -C /repo rev-parse --short HEAD", shell=True, capture_output=True, text=True).stdout.strip()
rec = {"repo_head": head, "checks": {}}
p = subprocess.run("git apply %s" % os.path.join(d, "patch.diff"), shell=True, cwd=wt, capture_output=True, text=True)
rec["patch_applies"] = p.returncode == 0
if p.returncode == 0:
    cids = [c for c, v in meta.get("checks", {}).items() if v.get("detected")] or list(meta.get("checks", {}).keys())
    for cid in cids:
        t0 = time.time()
        try:
            q = subprocess.run("./check %s --no-evidence" % cid, shell=True, cwd="/verif", env=dict(ENV, VERIF_REPO=wt, VERIF_REPLAYDIR="/tmp/mainscratch/rc-replays-" + sid),
                               stdout=subprocess.PIPE, stderr=subprocess.STDOUT, text=True, timeout=2400)
            out, rc = q.stdout, q.returncode
        except subprocess.TimeoutExpired as e:
            out, rc = "", 124
        keys = [l.strip() for l in out.splitlines() if l.strip().startswith("what:")]
        rec["checks"][cid] = {"rc": rc, "detected": rc == 1 and "VIOLATION property=" in out, "violations": keys[:3], "wall_s": round(time.time() - t0, 1)}
meta["recheck"] = rec
json.dump(meta, open(os.path.join(d, "meta.json"), "w"), indent=1)
subprocess.run("git -C /repo worktree remove --force %s; rm -rf /verif/.work/alt-%s /tmp/mainscratch/rc-replays-%s" % (wt, hashlib.sha1(os.path.abspath(wt).encode()).hexdigest()[:10], sid), shell=True)
print(sid, "applies" if rec["patch_applies"] else "NO-APPLY", {c: v["detected"] for c, v in rec["checks"].items()}, {c: v["wall_s"] for c, v in rec["checks"].items()})
