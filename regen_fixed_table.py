#!/usr/bin/env python3
"""Regenerates the table of repaired defects in DESIGN.md 9.3 from known_findings.json."""
import json, re
k = json.load(open('/verif/known_findings.json'))
rows = sorted(re.match(r'fixed: property=(C\d+) (\S+) (.*)', f).groups() for f in k['fixed'])
out = ["<!-- FIXED-TABLE-BEGIN (generated from known_findings.json) -->", "| prop | fix commit | what failed (finding keys) |", "|---|---|---|"]
out += ["| %s | `%s` | %s |" % (p, c, w.replace('|', '\\|')) for p, c, w in rows]
out.append("<!-- FIXED-TABLE-END -->")
s = open('/verif/DESIGN.md').read()
s = re.sub(r'<!-- FIXED-TABLE-BEGIN.*?FIXED-TABLE-END -->', lambda m: "\n".join(out), s, flags=re.S)
s = re.sub(r'suppress nothing\)\. \d+ `fix:` commits', 'suppress nothing). %d `fix:` commits' % len(rows), s)
open('/verif/DESIGN.md', 'w').write(s)
print(len(rows), "rows")
