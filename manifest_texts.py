HOOK_COMMITS = ["ed98b85"]

NOT_APPLICABLE = {}

TEXTS = {
    "C17": {
        "technique": "runtime monitor: differential oracle (independent segment-stack resolver + sentinel files) over exhaustive path enumeration; strace syscall monitor in the thorough tier",
        "level_text": "Every Resolve call of the real locator is observed on an exhaustive enumeration of segment sequences (<=4 quick, <=6 thorough) x 6 separator decorations x 13 root configurations, plus random longer paths and imports through the interpreter; content is accepted only if an independent lexical resolver places the path inside the root and the bytes are that file's sentinel. Thorough additionally replays the enumeration under strace and checks every successful open below the sandbox base. Exhaustive over the stated finite universe; nothing is claimed beyond it.",
        "level_note": "Trusted: the reference resolver (15 lines), the sandbox layout (no symlinks), strace's openat log. Errors are always accepted as the statement allows.",
    },
}
