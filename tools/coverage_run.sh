#!/bin/bash
# usage: run.sh C03 C04 ...   (coverage of krotik/ecal packages reached by each check's quick tier, normal variant)
export GOFLAGS=-mod=mod GOPROXY=off GOSUMDB=off GOTOOLCHAIN=local
cd /verif/harness
for id in "$@"; do
  lc=$(echo $id | tr A-Z a-z)
  d=${COVDIR:-/tmp/verif-cov}/$id; rm -rf $d; mkdir -p $d/data $d/out
  go build -tags verif -cover -coverpkg=verif/harness/cmd/$lc,github.com/krotik/ecal/cli,github.com/krotik/ecal/cli/tool,github.com/krotik/ecal/config,github.com/krotik/ecal/engine,github.com/krotik/ecal/engine/pool,github.com/krotik/ecal/engine/pubsub,github.com/krotik/ecal/examples/plugin,github.com/krotik/ecal/interpreter,github.com/krotik/ecal/parser,github.com/krotik/ecal/scope,github.com/krotik/ecal/stdlib,github.com/krotik/ecal/stdlib/generate,github.com/krotik/ecal/util -o $d/bin ./cmd/$lc || { echo build failed $id; continue; }
  for b in $(seq 0 15); do
    GOCOVERDIR=$d/data timeout -s QUIT 900 $d/bin $id --tier quick --seed 1 --batch $b --nbatch 16 --out $d/out > $d/out/log$b.txt 2>&1 &
  done
  wait
  go tool covdata textfmt -i=$d/data -o $d/cover.txt 2>&1 | tail -1
  rm -rf $d/data $d/out $d/bin
  echo "$id done $(wc -l < $d/cover.txt)"
done
