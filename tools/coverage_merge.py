import sys,glob,collections,re,os
blocks=collections.defaultdict(int); stm={}
per=collections.defaultdict(lambda: collections.defaultdict(int))
for f in glob.glob(os.path.join(os.environ.get('COVDIR','/tmp/verif-cov'),'C*','cover.txt')):
    cid=f.split('/')[-2]
    for l in open(f):
        if l.startswith('mode:'): continue
        m=re.match(r'(\S+):(\d+)\.(\d+),(\d+)\.(\d+) (\d+) (\d+)',l)
        if not m: continue
        k=(m.group(1),int(m.group(2)),int(m.group(4)))
        blocks[k]+=int(m.group(7)); stm[k]=int(m.group(6))
        if int(m.group(7)): per[k][cid]+=1
byfile=collections.defaultdict(lambda:[0,0])
for k,c in blocks.items():
    byfile[k[0]][0]+=stm[k]
    if c: byfile[k[0]][1]+=stm[k]
want=sys.argv[1] if len(sys.argv)>1 else None
if not want:
    for f,(t,c) in sorted(byfile.items()):
        print('%-60s %5d/%5d %5.1f%%'%(f.replace('github.com/krotik/ecal/',''),c,t,100.0*c/max(t,1)))
else:
    for k in sorted(blocks):
        if want in k[0] and blocks[k]==0:
            print('%s:%d-%d (%d stmts)'%(k[0].replace('github.com/krotik/ecal/',''),k[1],k[2],stm[k]))
